"""Fingerprint and cache protocol rules (DESIGN 3.2)."""
from __future__ import annotations

import ast
import re
import os
from typing import Dict, List, Optional, Set

from . import astu
from .facts import Run, normal
from .interp import Ctx, analyse_function, analyse_method, exc_is_subclass
from .model import AnalysisError
from .report import RuleResult
from .terms import Seq,  Child, Const, Fn, New, Sym, Term, Val


# ------------------------------------------------------------------ R-FP
FORBIDDEN_FP = {"hash", "id", "repr", "random", "time", "uuid", "getrandbits", "urandom",
                "environ", "getenv", "getpid", "monotonic", "perf_counter", "now", "object_id"}


def rule_FP(run: Run) -> RuleResult:
    res = RuleResult("R-FP")
    nec = ("hashing anything but the sorted (key, value) pairs of keys(options) defeats memoization "
           "(extra keys split entries) or makes the bytes depend on hash seed / process")
    repo = run.repo
    sites = []
    for c in repo.classes.values():
        if "fingerprint" in c.methods:
            sites.append(c)
    if not any(c.name == "Cacheable" for c in sites):
        raise AnalysisError("anchor Cacheable.fingerprint not found")
    for c in sites:
        fn = c.method("fingerprint")
        f = c.module.relpath
        cons = f"{c.qualname}.fingerprint"
        res.count("functions")
        params = astu.param_names(fn)
        if not params:
            res.add(f"{cons}:signature", False, f, fn.lineno, "fingerprint has no options parameter", nec)
            continue
        opt = params[0]
        amap = astu.single_assign_map(fn)
        selfn = astu.first_param(fn)
        pm = astu.parent_map(fn)
        # (a) every use of the options parameter, read off the interpreter's paths: it is handed to self.keys(·) and to the
        # dotted lookup of a reported key, and to nothing else (whatever local, partial() or keyword form carries it there)
        from .interp import analyse_function as _af
        import re as _re
        ok_uses = True
        n_uses = 0
        bad_use = ""
        KEYS_T = f"call:keys({selfn},{opt})"
        for p in _af(Ctx(repo), c.module, fn, cls=c):
            for e in p.events:
                if e.kind not in ("call", "op"):
                    continue
                terms = [a.key() for a in e.args] + ([e.opts.key()] if getattr(e, "opts", None) is not None else [])
                for tk in terms:
                    if not _re.search(r"(?<![\w.])" + _re.escape(opt) + r"(?![\w])", tk):
                        continue
                    n_uses += 1
                    if e.text == "keys" and e.target is not None and e.target.key() == selfn and tk == opt:
                        continue
                    if e.text.endswith("get_dotted_key") and len(e.args) >= 2 and e.args[1].key() == opt:
                        rest0 = e.args[0].key().replace(KEYS_T, "")
                        if not _re.search(r"(?<![\w.])" + _re.escape(opt) + r"(?![\w])", rest0):
                            continue
                    # nested inside the value being serialised: only as part of the two uses above
                    rest = _re.sub(r"call:confectioner\.templating\.get_dotted_key\((?:[^()]|\([^()]*\))*," + _re.escape(opt) + r"\)", "", tk.replace(KEYS_T, ""))
                    if not _re.search(r"(?<![\w.])" + _re.escape(opt) + r"(?![\w])", rest):
                        continue
                    ok_uses = False
                    bad_use = f"line {e.line}: {e.text or e.op}({tk[:80]})"
        res.add(f"{cons}:options-only-via-keys-and-lookup", ok_uses and n_uses >= 2, f, fn.lineno,
                f"{n_uses} uses of '{opt}'" + (f"; offending use {bad_use}" if bad_use else " — all are self.keys(·) or get_dotted_key(k, ·)"), nec)
        # (b) the key set is iterated through sorted(...): read off the paths — whatever loop, comprehension or helper
        # walks the reported keys walks sorted(self.keys(options)) (no key=, no reverse=), and some path does walk them
        fps_b = [p for p in _af(Ctx(repo), c.module, fn, cls=c) if p.status == "ret"]
        ELEM_T = f"elem({KEYS_T})"
        SORTED_T = f"reordered:sorted({KEYS_T})"
        sorted_ok, unsorted, n_iter = bool(fps_b), "", 0
        for p in fps_b:
            for e in p.events:
                if e.kind != "iter" or e.target is None:
                    continue
                tk = e.target.key().replace(ELEM_T, "")
                if KEYS_T not in tk:
                    continue
                n_iter += 1
                if tk not in (SORTED_T, f"list({SORTED_T})", f"tuple({SORTED_T})", f"call:list({SORTED_T})", f"call:tuple({SORTED_T})"):
                    sorted_ok = False
                    unsorted = f"line {e.line}: iterates {e.text} = {tk[:90]}"
        if sorted_ok and n_iter == 0:
            sorted_ok = False
            unsorted = "no iteration over self.keys(options) found"
        res.add(f"{cons}:sorted-iteration", sorted_ok, f, fn.lineno,
                "keys are iterated through sorted(self.keys(options))" if sorted_ok else f"keys iterated without sorted: {unsorted}", nec)
        # (c) serialiser: json.dumps of a list (JSON arrays keep their order; a dict of the pairs would be re-ordered by
        # nothing but would collapse … and a set is not serialisable), with no default=/cls= hook
        ser_ok, ser = bool(fps_b), "no json.dumps call"
        canon = False
        n_dump = 0
        for p in fps_b:
            for e in p.events:
                if e.kind == "call" and e.text in ("json.dumps", "dumps"):
                    n_dump += 1
                    a0 = e.args[0] if e.args else None
                    ser = a0.key()[:120] if a0 is not None else "nothing"
                    from .interp import Coll as _Coll
                    listy = isinstance(a0, Seq) or (isinstance(a0, Sym) and a0.head in ("list[]", "call:list", "list")) or (isinstance(a0, _Coll) and getattr(a0, "kind", "list") in ("list", "gen", None))
                    hooks = [a for a in e.args[1:] if isinstance(a, Sym) and (a.head in ("kw:default", "kw:cls") or (
                        a.head == "kw:sort_keys" and not (a.args and isinstance(a.args[0], Const) and a.args[0].v is True)))]
                    if any(isinstance(a, Sym) and a.head == "kw:sort_keys" and a.args and isinstance(a.args[0], Const) and a.args[0].v is True for a in e.args[1:]):
                        canon = True
                    if not listy or hooks:
                        ser_ok = False
        if n_dump == 0:
            ser_ok = False
        res.add(f"{cons}:json-list-serialiser", ser_ok, f, fn.lineno, f"serialised value: {ser}", nec)
        # (c') a section-valued option is serialised with its entries in a canonical order: json.dumps writes a dict in insertion order,
        # so equal dictionaries built in different orders get different texts unless sort_keys=True (or an equivalent canonical form)
        res.add(f"{cons}:a section value is serialised independent of its insertion order", canon, f, fn.lineno,
                "json.dumps(..., sort_keys=True)" if canon else "json.dumps without sort_keys: {'S': {'a': 1, 'b': 2}} and {'S': {'b': 2, 'a': 1}} are equal and get different fingerprints",
                "the fingerprint is identical for dictionaries that agree on the reported keys and their values (C03); a repeated evaluation with an equal "
                "dictionary is served from the cache (C02)")
        # (d) returned bytes derive from the dump
        # (read off the returned terms of the interpreter's paths, so a private helper that does the dumping is seen through)
        ret_ps = [p for p in fps_b if p.status == "ret"]
        ret_ok = bool(ret_ps)
        ret_why = "every return returns the json dump (possibly encoded)"
        for p in ret_ps:
            rk_ = p.ret.key() if p.ret is not None else "None"
            core = rk_[len("call:encode("):] if rk_.startswith("call:encode(") else rk_
            if not core.startswith(("call:json.dumps(", "call:dumps(")):
                ret_ok = False
                ret_why = f"a path returns {rk_[:80]}, not the json dump"
        res.add(f"{cons}:returns-dump", ret_ok, f, fn.lineno, ret_why, nec)
        # (e) forbidden sources of nondeterminism
        bad = []
        for n in astu.walk_no_nested(fn):
            if isinstance(n, ast.Name) and n.id in FORBIDDEN_FP:
                bad.append(n.id)
            if isinstance(n, ast.Attribute) and n.attr in FORBIDDEN_FP:
                bad.append(n.attr)
            if isinstance(n, ast.Call) and astu.short_name(n) in ("str", "format") and n.args and (astu.contains_name(n.args[0], opt) or "keys(" in ast.unparse(n.args[0])):
                bad.append("str(collection)")
            if isinstance(n, ast.JoinedStr) and (astu.contains_name(n, opt)):
                bad.append("f-string over options")
        res.add(f"{cons}:no-nondeterministic-source", not bad, f, fn.lineno,
                "no hash/id/repr/random/time/environment use" if not bad else f"uses {sorted(set(bad))}", nec)
        # (f) every reported key is serialised with its value: on every returning path the dumped list ranges over
        # the whole of keys(options) — no filter, no slice, no list built up under a condition
        from .interp import analyse_function, Coll
        fps = analyse_function(Ctx(repo), c.module, fn, cls=c)
        K = f"elem(call:keys({selfn},{opt}))"
        V = f"call:confectioner.templating.get_dotted_key({K},{opt})"
        okf, whyf = bool(fps), ""
        n_ret = 0

        def find_dump(t, d=0):
            if isinstance(t, Sym) and t.head in ("call:json.dumps", "call:dumps"):
                return t
            for a in (getattr(t, "args", ()) or ()):
                if d < 6:
                    r_ = find_dump(a, d + 1)
                    if r_ is not None:
                        return r_
            return None
        for p in fps:
            if p.status != "ret":
                continue
            n_ret += 1
            dmp = find_dump(p.ret)
            arg = dmp.args[0] if dmp is not None and dmp.args else None
            per_elem = [c for c in p.conds if c[2] and K in c[2]]
            if isinstance(arg, Seq) or (isinstance(arg, Sym) and arg.head == "list[]"):
                # a list filled by an explicit loop: one abstract iteration (or none) stands for all of them, provided
                # nothing was decided per key on the way
                items = list(arg.items) if isinstance(arg, Seq) else []
                if per_elem or any(it.key() != f"dict(item({K},{V}))" for it in items) or len(items) > 1:
                    okf, whyf = False, (f"an entry is added only when `{per_elem[0][0][:60]}` is {per_elem[0][1]}: not one entry per reported key" if per_elem
                                        else f"a path dumps {arg.key()[:90]}: not one entry per reported key")
                continue
            if not (isinstance(arg, Coll) and not getattr(arg, "partial", False)):
                okf, whyf = False, f"a path dumps {arg.key()[:90] if arg is not None else p.ret.key()[:90]}: not one entry per reported key"
                continue
            if arg.elem.key() != f"dict(item({K},{V}))":
                okf, whyf = False, f"the dumped entries are {arg.elem.key()[:120]}, not {{key: value}} for each key of keys({opt})"
            flt = [e for e in p.events if e.kind == "filter"]
            if flt:
                okf, whyf = False, f"reported keys are filtered before being serialised (`{flt[0].text}`, line {flt[0].line})"
        res.add(f"{cons}:every-reported-key-serialised", okf and n_ret > 0, f, fn.lineno,
                whyf or f"{n_ret} returning path(s): one {{key: value}} entry for each key of keys({opt})",
                "a reported key left out of the fingerprint no longer separates cache entries: two option dictionaries that differ "
                "only under that key share a stored result (C01, C03)")
        # a value that is a sequence keeps its order on the way into the fingerprint: [1, 2] and [2, 1] are different values (only what has
        # no order of its own — a set, the entries of a mapping — may be sorted into one)
        from .interp import Frame as _Fr
        bad_order = ""
        n_reord = 0

        def reordered_values(t, out, d=0):
            if isinstance(t, Sym) and t.head.startswith("reordered:") and V in t.key():
                out.append(t)
            for a in list(getattr(t, "args", ()) or ()) + list(getattr(t, "items", ()) or ()) + ([t.elem] if hasattr(t, "elem") else []):
                if d < 12:
                    reordered_values(a, out, d + 1)
            return out
        for p in fps:
            if p.status != "ret" or p.ret is None or "reordered:" not in p.ret.key():
                continue
            ro = reordered_values(p.ret, [])
            if not ro:
                continue
            n_reord += 1
            unordered = False
            for k_, pol_ in _Fr.atoms(p.conds).items():
                if pol_ is True and k_.startswith(f"call:isinstance({V},"):
                    kinds = set(_re.findall(r"(?:name|ext|class)<([^>]+)>", k_[len(f"call:isinstance({V},"):]))
                    kinds = {x.split(".")[-1] for x in kinds}
                    if kinds and kinds <= {"set", "frozenset", "Set", "AbstractSet", "MutableSet", "Mapping", "dict", "MutableMapping", "KeysView", "ItemsView"}:
                        unordered = True
            if not unordered and not bad_order:
                bad_order = f"a path sorts the value itself ({ro[0].key()[:80]}) without having established that it is a set or a mapping: lists and tuples that differ in order share a fingerprint"
        if True:
            res.add(f"{cons}:a sequence value keeps its order", not bad_order, f, fn.lineno,
                    bad_order or (f"{n_reord} path(s) sort a value, each only after isinstance(value, <set / mapping>)" if n_reord else "no path re-orders a value"),
                    "the value under a reported key separates cache entries: two lists with the same elements in a different order are different values (C03, C08: "
                    "a dataset and its with_options variants share one cache)")
        if c.name != "Cacheable":
            res.notes.append(f"override of fingerprint in {c.qualname} held to the same rule")
    return res


# ------------------------------------------------------------------ R-CP
def _is_new(t: Term, name: str) -> bool:
    return isinstance(t, Sym) and t.head == "new:" + name


def _run_of(t: Term, name: str) -> bool:
    return isinstance(t, Sym) and t.head == "call:run" and t.args and _is_new(t.args[0], name)


def rule_CP(run: Run) -> RuleResult:
    res = RuleResult("R-CP")
    repo = run.repo
    cached = repo.cls("Cached")
    f, ln = cached.module.relpath, cached.method("evaluate").lineno if "evaluate" in cached.methods else 0
    nec1 = "a value that does not come from a successful inner evaluation must never reach the cache (C12); " \
           "lookup, store and key must use the identical (evaluatable, options, cache) triple (C01)"
    paths = run.paths(cached, "evaluate")
    res.count("paths", len(paths))
    npaths = normal(paths)
    if not npaths:
        raise AnalysisError("Cached.evaluate has no returning path")
    triple = None
    sets = gets = exists = 0
    ok_store = True
    ok_triple = True
    ok_ret = True
    ok_guard = True
    ok_fall = False
    d_store = d_triple = d_ret = d_guard = ""
    for p in paths:
        for i, e in enumerate(p.events):
            if e.kind != "call" or not e.text.startswith("new Cache"):
                continue
            nm = e.text[4:]
            args = list(e.args)
            if nm == "CacheSetRequest":
                sets += 1
                if len(args) < 4:
                    ok_store = False
                    d_store = "CacheSetRequest built with fewer than 4 arguments"
                    continue
                val = args[2]
                prior = [x for x in p.events[:i] if x.kind == "op" and x.op == "evaluate" and not x.failed and isinstance(x.target, Child) and x.target.path == "evaluatable"]
                if not (isinstance(val, Val) and val.op == "evaluate" and isinstance(val.target, Child) and val.target.path == "evaluatable" and prior):
                    ok_store = False
                    d_store = f"line {e.line}: stored value is {val.key()[:80]}, not the result of a successful self.evaluatable.evaluate(options) on this path"
                t3 = (args[0].key(), args[1].key(), args[3].key())
            elif nm in ("CacheGetRequest", "CacheExistsRequest"):
                gets += nm == "CacheGetRequest"
                exists += nm == "CacheExistsRequest"
                if len(args) < 3:
                    ok_triple = False
                    continue
                t3 = (args[0].key(), args[1].key(), args[2].key())
            else:
                continue
            if triple is None:
                triple = t3
            elif t3 != triple:
                ok_triple = False
                d_triple = f"line {e.line}: {nm} uses {t3}, another request uses {triple}"
        # get request must be guarded and its failure must fall through
        for e in p.events:
            if e.kind == "call" and e.text == "run" and _is_new(e.target, "CacheGetRequest"):
                if not any("CacheGetFailure" in g or "CacheFailure" in g or g in ("Exception",) for g in e.guards):
                    ok_guard = False
                    d_guard = f"line {e.line}: CacheGetRequest(...).run() outside try/except CacheGetFailure"
                if e.via:
                    # issued inside the evaluate() of another expression: the request wrapper of that expression turns the backend's
                    # CacheGetFailure into an EvaluationError before it reaches the handler here, which then no longer matches
                    ok_guard = False
                    d_guard = (f"line {e.line}: the read is issued inside {e.via[-1]}.evaluate(): its failure arrives wrapped in an EvaluationError, "
                               "not as the CacheGetFailure the fall-through handler catches")
                if e.failed and p.status == "ret" and any(x.kind == "op" and x.op == "evaluate" and not x.failed for x in p.events):
                    ok_fall = True
        if p.status == "ret":
            r = p.ret
            good = _run_of(r, "CacheGetRequest") or _run_of(r, "CacheSetRequest") or (isinstance(r, Val) and r.op == "evaluate" and isinstance(r.target, Child) and r.target.path == "evaluatable")
            if not good:
                ok_ret = False
                d_ret = f"a path returns {r.key()[:100]}"
        if p.status == "ret" and any(e.kind == "op" and e.op == "evaluate" and not e.failed and isinstance(e.target, Child) and e.target.path == "evaluatable" for e in p.events) \
                and not any(e.kind == "call" and e.text == "run" and _is_new(e.target, "CacheSetRequest") for e in p.events):
            # whatever was computed is handed to the cache: a value returned without the store request is computed again next time
            ok_store = False
            d_store = (f"a returning path evaluates the inner object and hands the value back without issuing the CacheSetRequest "
                       f"(conditions {[c[0][:50] for c in p.conds][-3:]}): such values are never stored, every evaluation runs the body again")
        if p.status == "ret" and not any(e.kind == "call" and e.text == "run" and (_is_new(e.target, "CacheGetRequest") and not e.failed) for e in p.events):
            # computed path: the evaluate must not have failed
            if any(e.kind == "op" and e.op == "evaluate" and e.failed for e in p.events):
                ok_store = False
                d_store = "a returning path continues after the inner evaluation failed"
    if triple is not None and triple != ("Child(evaluatable)", "options", "Child(cache)"):
        ok_triple = False
        d_triple = d_triple or f"requests use {triple} instead of (self.evaluatable, options, self.cache)"
    # keys / explain / validate address the same inner object with the same options
    for op in ("keys", "explain", "validate"):
        for p in normal(run.paths(cached, op)):
            for e in p.events:
                if e.kind == "op" and isinstance(e.target, Child) and e.target.path != "evaluatable":
                    ok_triple = False
                    d_triple = f"Cached.{op} addresses '{e.target.path}'"
                if e.kind == "op" and e.opts is not None and e.opts.key() != "options":
                    ok_triple = False
                    d_triple = f"Cached.{op} passes {e.opts.key()[:60]}"
    # a hit is served from the cache: some path returns the get result under a true exists
    hit = False
    for p in npaths:
        if _run_of(p.ret, "CacheGetRequest"):
            ex = [c for c in p.conds if "new:CacheExistsRequest" in c[2]]
            if ex and (ex[0][1] != ex[0][2].startswith("unop:Not(")):
                hit = True
    res.add("labrea.cache.Cached.evaluate:a stored value is served without recomputing", hit, f, ln,
            "exists -> get -> return, no inner evaluation on that path" if hit else "no path returns the retrieved value when the entry exists",
            "memoization is effective only if a hit returns the stored value without running the body (C02)")
    for p in npaths:
        if _run_of(p.ret, "CacheGetRequest") and any(e.kind == "op" and e.op == "evaluate" and not e.failed for e in p.events):
            res.add("labrea.cache.Cached.evaluate:no inner evaluation on the hit path", False, f, ln, "the inner object is evaluated although the stored value is returned",
                    "the body must not run on a cache hit (C02)")
            break
    else:
        res.add("labrea.cache.Cached.evaluate:no inner evaluation on the hit path", True, f, ln, "hit paths do not evaluate the inner object", "C02")
    if sets == 0 or gets == 0 or exists == 0:
        raise AnalysisError("Cached.evaluate no longer issues the three cache requests (anchor vanished)")
    res.add("labrea.cache.Cached.evaluate:store-after-compute", ok_store, f, ln, d_store or "CacheSetRequest carries the value of a successful inner evaluate on every path", nec1)
    res.add("labrea.cache.Cached.evaluate:same-triple", ok_triple, f, ln, d_triple or f"all requests and keys/explain/validate use {triple}", nec1)
    res.add("labrea.cache.Cached.evaluate:returns-retrieved-stored-or-computed", ok_ret, f, ln, d_ret or "every return is the get result, the set result or the computed value",
            "returning anything else yields a wrong value (C17)")
    res.add("labrea.cache.Cached.evaluate:get-guarded", ok_guard, f, ln, d_guard or "get request is inside try/except CacheGetFailure",
            "a backend that claims exists and then fails to get would make evaluation fail (C17)")
    res.add("labrea.cache.Cached.evaluate:get-failure-falls-through", ok_fall, f, ln,
            "a failed get continues with the computation" if ok_fall else "no path recomputes after a failed get", "C17")
    # (5) Cached.validate skips only when exists
    vf = cached.methods.get("validate")
    ok_v = True
    d_v = ""
    have_validate = False
    for p in normal(run.paths(cached, "validate")):
        did = any(e.kind == "op" and e.op == "validate" and not e.failed for e in p.events)
        have_validate |= did
        if not did:
            ex = [c for c in p.conds if "new:CacheExistsRequest" in c[2]]
            if not ex:
                ok_v = False
                d_v = "a path skips the inner validate without consulting CacheExistsRequest"
            else:
                txt, pol, term = ex[-1]
                neg = term.startswith("unop:Not(")
                exists_true = pol != neg
                if not exists_true:
                    ok_v = False
                    d_v = "inner validate is skipped on the branch where the value does NOT exist"
    if not have_validate:
        ok_v = False
        d_v = "no path of Cached.validate validates the inner object"
    res.add("labrea.cache.Cached.validate:skip-only-when-exists", ok_v, f, vf.lineno if vf else ln, d_v or "inner validate skipped only on the exists branch",
            "validate must not pass for options the inner object cannot evaluate (C10)")
    # set handler
    from .rules_switch import handler_parts, switch_polarity
    parts = handler_parts(run)
    h = repo.func(parts["handlers"]["set"])
    rq_p = [a.arg for a in h.node.args.args][0]
    hp = analyse_function(Ctx(repo), h.module, h.node)
    res.count("paths", len(hp))
    ok_h = True
    d_h = ""
    saw_set = False
    for p in hp:
        if p.status != "ret":
            continue
        if switch_polarity(p, "LABREA.CACHE.DISABLED") is True:
            continue
        names = [e.text for e in p.events if e.kind == "call"]
        if "set" not in names:
            ok_h = False
            d_h = "a non-disabled path returns without cache.set"
            continue
        saw_set = True
        i_set = names.index("set")
        r = p.ret
        rk = r.key() if r is not None else ""
        got = rk.startswith("call:get(") and "get" in names[i_set + 1:]
        fallback = rk == f"attr:value({rq_p})"
        if not (got or fallback):
            ok_h = False
            d_h = f"a path returns {rk[:80]}"
        for e in p.events:
            if e.kind == "call" and e.text == "get" and not any("CacheGetFailure" in g or "CacheFailure" in g for g in e.guards):
                ok_h = False
                d_h = "read-back get is outside try/except CacheGetFailure"
    if not saw_set:
        ok_h = False
        d_h = d_h or "cache.set is never called"
    # Cache.exists (the default a backend inherits): present exactly when get() succeeds
    cb = repo.cls("labrea.cache.Cache")
    ex_fn = cb.methods.get("exists")
    if ex_fn is not None:
        ctx_e = Ctx(repo)
        ctx_e.no_inline = {"get", "set"}
        eps_ = analyse_function(ctx_e, cb.module, ex_fn, cls=cb)
        ok_e, why_e, outcomes_ = bool(eps_), "", set()
        for p in eps_:
            gets = [e for e in p.events if e.kind == "call" and e.text == "get"]
            k = p.ret.key() if p.status == "ret" and p.ret is not None else p.status
            outcomes_.add(k)
            if not gets or len(gets[0].args) < 2 or [a.key() for a in gets[0].args[:2]] != astu.param_names(ex_fn)[:2]:
                ok_e, why_e = False, "does not try get(evaluatable, options)"
            elif (k == "Const(True)") != (not gets[0].failed) or k not in ("Const(True)", "Const(False)"):
                ok_e, why_e = False, f"returns {k} when get() {'fails' if gets[0].failed else 'succeeds'}"
        res.add("labrea.cache.Cache.exists:present exactly when get() succeeds", ok_e and outcomes_ == {"Const(True)", "Const(False)"}, cb.module.relpath, ex_fn.lineno,
                why_e or "try: get(...); return True / except CacheGetFailure: return False",
                "a backend that implements only get/set relies on this default; a wrong answer makes Cached skip or repeat the computation (C17, C02)")
    # cached(x [, cache]) and cached(cache)(x) both wrap x (not the cache) in Cached
    cf = repo.functions.get("labrea.cache.cached")
    if cf is not None:
        from .interp import Frame as _Fr
        cps_ = analyse_function(Ctx(repo), cf.module, cf.node)
        fp_ = [a.arg for a in cf.node.args.posonlyargs + cf.node.args.args]
        ok_c, why_c = bool(cps_), ""
        for p in cps_:
            is_cache = _Fr.atoms(p.conds).get(f"call:isinstance({fp_[0]},class<labrea.cache.Cache>)")
            r_ = p.ret
            if isinstance(r_, New) and r_.cls.name == "Cached":
                ck_ = r_.attrs["cache"].key()
                at_ = _Fr.atoms(p.conds)
                # (the cache given, or — on a path that found none given — a fresh MemoryCache: ``cache or MemoryCache()`` spelled as a test)
                cache_ok = fp_[1] in ck_ or (ck_.startswith("new:MemoryCache") and (at_.get(fp_[1]) is False or at_.get(f"cmp:Is({fp_[1]},Const(None))") is True))
                if is_cache is not False or r_.attrs["evaluatable"].key() != fp_[0] or not cache_ok:
                    ok_c, why_c = False, f"direct form builds {r_.key()[:80]}"
            elif isinstance(r_, Fn) and isinstance(r_.node, ast.Lambda):
                lam = r_.node
                lp = [a.arg for a in lam.args.args]
                b = lam.body
                good = is_cache is True and isinstance(b, ast.Call) and astu.short_name(b) in ("cached", "Cached") and len(b.args) == 2 \
                    and ast.unparse(b.args[0]) == lp[0] and ast.unparse(b.args[1]) == fp_[0]
                if not good:
                    ok_c, why_c = False, f"decorator form returns {ast.unparse(lam)[:70]}"
            else:
                ok_c, why_c = False, f"returns {r_.key()[:60] if r_ is not None else p.status}"
        res.add("labrea.cache.cached:wraps the evaluatable (not the cache) in both call forms", ok_c, cf.module.relpath, cf.node.lineno,
                why_c or "Cached(x, cache or MemoryCache()) / lambda evaluatable: cached(evaluatable, cache)", "the cached object must be the evaluatable (C01, C02)")
    res.add("labrea.cache._set_cache_handler:store-then-read-back", ok_h, h.module.relpath, h.node.lineno,
            d_h or "stores, then returns the read-back value or request.value when the read-back fails",
            "the canonical stored value (or the computed one) must be returned (C02, C17)")
    return res


# ------------------------------------------------------------------ R-MC
def rule_MC(run: Run) -> RuleResult:
    res = RuleResult("R-MC")
    repo = run.repo
    mc = repo.cls("MemoryCache")
    f = mc.module.relpath
    nec = "get/set/exists must address an entry by the same fingerprint, else a stored value is missed or another entry's value is returned"
    forms = {}
    for name in ("get", "set", "exists"):
        fn = mc.methods.get(name)
        if fn is None:
            if name == "exists":
                continue
            raise AnalysisError(f"MemoryCache.{name} not found")
        amap = astu.single_assign_map(fn)
        params = astu.param_names(fn)
        keys = []
        rs = astu.class_resolver(repo, mc)

        def K(e):
            return astu.inline_helpers(astu.expand_locals(e, amap), rs)

        def is_store(e) -> bool:
            """``self._cache`` itself or a local bound once to it (``store = self._cache``)."""
            return astu.is_self_attr(astu.expand_locals(e, amap) if isinstance(e, ast.Name) else e, "_cache")

        for n in astu.walk_no_nested(fn):
            if isinstance(n, ast.Subscript) and is_store(n.value):
                keys.append(K(n.slice))
            if isinstance(n, ast.Compare) and len(n.ops) == 1 and isinstance(n.ops[0], (ast.In, ast.NotIn)) and is_store(n.comparators[0]):
                keys.append(K(n.left))
            if isinstance(n, ast.Call) and isinstance(n.func, ast.Attribute) and is_store(n.func.value) and n.func.attr in ("get", "pop", "setdefault", "__getitem__", "__contains__", "__setitem__") and n.args:
                keys.append(K(n.args[0]))
        want = f"{params[0]}.fingerprint({params[1]})" if len(params) >= 2 else "?"
        got = sorted({ast.unparse(k) for k in keys})
        ok = got == [want]
        forms[name] = got
        res.add(f"labrea.cache.MemoryCache.{name}:key-is-fingerprint", ok, f, fn.lineno,
                f"indexes self._cache with {got}; expected [{want}]", nec)
    ex = mc.methods.get("exists")
    if ex is not None:
        amap = astu.single_assign_map(ex)
        rets = [astu.inline_helpers(astu.expand_locals(r.value, amap), astu.class_resolver(repo, mc)) for r in astu.walk_no_nested(ex) if isinstance(r, ast.Return) and r.value is not None]
        ok = bool(rets) and all(isinstance(r, ast.Compare) and len(r.ops) == 1 and isinstance(r.ops[0], ast.In) and astu.is_self_attr(r.comparators[0], "_cache") for r in rets)
        res.add("labrea.cache.MemoryCache.exists:presence is membership of the fingerprint (as in get)", ok, f, ex.lineno,
                f"returns {[ast.unparse(r) for r in rets]}",
                "get() serves every stored entry, whatever its value; an exists() that looks at the value (None, falsy) reports stored entries as absent and the body re-runs (C02)")
    # get() decides presence by the key, never by the stored value
    gfn = mc.methods.get("get")
    from .interp import Frame, analyse_function
    gps = analyse_function(Ctx(repo), mc.module, gfn, cls=mc)
    C_ = "attr:_cache(self)"
    ok, why = bool(gps), ""
    saw_ret = saw_fail = False
    for p in gps:
        if p.status == "ret":
            saw_ret = True
            continue
        if not (p.exc and "CacheGetFailure" in p.exc[0]):
            continue
        saw_fail = True
        # a KeyError raised while computing the key or indexing the memo dictionary
        first_access = next((i_ for i_, e in enumerate(p.events) if e.kind == "call" and e.target is not None and e.target.key() == C_), len(p.events))
        failed_ = [(i_, e) for i_, e in enumerate(p.events) if e.kind == "call" and e.failed]
        by_key = any(i_ <= first_access for i_, e in failed_)
        late = [e for i_, e in failed_ if i_ > first_access]
        if late and ok:
            # the entry was found, and something done with it afterwards failed: the entry is there, whatever went wrong is no miss
            ok, why = False, (f"raises CacheGetFailure after the entry was found (when {late[0].text} at line {late[0].line} fails): the value is stored but can never be "
                              "read, so every request recomputes it (and runs its effects) again")
        for k_, pol in Frame.atoms(p.conds).items():
            if k_.startswith("cmp:In(") and k_.endswith(f",{C_})") and pol is False:
                by_key = True
            elif C_ in k_ and (f"call:get({C_}" in k_ or f"getitem({C_}" in k_ or f"call:pop({C_}" in k_):
                # the failure is decided by looking at the stored value: fine only against a private sentinel default
                m_ = re.match(r"cmp:Is\(call:get\(" + re.escape(C_) + r",(.+),(global<[^>]+>|new:[^,()]+(?:\([^()]*\))?)\),(.+)\)$", k_)
                if m_ and m_.group(2) == m_.group(3) and pol is True:
                    by_key = True
                else:
                    ok, why = False, f"reports a miss when the stored value satisfies `{k_[:90]}`: a stored None/falsy value is then never served"
        if not by_key and ok:
            ok, why = False, f"raises CacheGetFailure on a path that did not establish the key is absent ({[c[0] for c in p.conds]})"
    ok = ok and saw_ret and saw_fail
    res.add("labrea.cache.MemoryCache.get:a miss is decided by the key, not by the stored value", ok, f, gfn.lineno,
            why or "KeyError of self._cache[fingerprint] / membership test",
            "exists() and get() must agree on every stored entry, whatever its value: otherwise the body (and its effects) re-run on every request (C02, C17)")
    # who may write the memo dictionary
    writers = []
    for m in repo.modules.values():
        for n in ast.walk(m.tree):
            tgt = None
            if isinstance(n, (ast.Assign, ast.AugAssign, ast.AnnAssign, ast.Delete)):
                tgts = n.targets if isinstance(n, (ast.Assign, ast.Delete)) else [n.target]
                for t in tgts:
                    for x in ast.walk(t):
                        if isinstance(x, ast.Attribute) and x.attr == "_cache":
                            writers.append((m, n))
            if isinstance(n, ast.Call) and isinstance(n.func, ast.Attribute) and isinstance(n.func.value, ast.Attribute) and n.func.value.attr == "_cache" and n.func.attr in ("update", "setdefault", "pop", "popitem", "clear", "__setitem__", "__delitem__"):
                writers.append((m, n))
    allowed = set()
    for nm in ("__init__", "set"):
        fn = mc.methods.get(nm)
        if fn is not None:
            allowed.add((mc.module.name, fn.lineno, fn.end_lineno))
    for m, n in writers:
        ok = any(m.name == a[0] and a[1] <= n.lineno <= a[2] for a in allowed)
        res.add(f"{m.name}:writes MemoryCache._cache:{'allowed' if ok else ast.unparse(n)[:60]}", ok, m.relpath, n.lineno,
                "write to ._cache " + ("inside MemoryCache.__init__/set" if ok else "outside MemoryCache.__init__/set"),
                "the only path into the memo dictionary must be the set handler after a successful evaluation (C12)")
    # the memo only grows: no method drops (or re-binds) what it holds.  The memo attributes are found by role:
    # whatever __init__ stores on self; removals are read off the paths of every method (helpers inlined)
    REMOVERS = {"pop", "popitem", "clear", "__delitem__", "remove", "discard"}
    init = mc.find_method("__init__")
    memo_attrs = set()
    if init is not None:
        for p in analyse_function(Ctx(repo), init[0].module, init[1], cls=mc):
            for e in p.events:
                if e.kind == "store" and len(e.args) == 2 and e.args[0].key() == "self" and isinstance(e.args[1], Const):
                    memo_attrs.add(e.args[1].v)
    n_m = 0
    for mn, mfn in mc.methods.items():
        if mn in ("__init__", "__setstate__", "__getstate__") or any(ast.unparse(d) in ("staticmethod", "classmethod", "property") for d in mfn.decorator_list):
            continue
        bad = None
        for p in analyse_function(Ctx(repo), mc.module, mfn, cls=mc):
            for e in p.events:
                tk = e.target.key() if e.target is not None else ""
                if e.kind == "call" and e.text in REMOVERS and any(tk == f"attr:{a}(self)" for a in memo_attrs):
                    bad = bad or (e.line, f"self.{tk[5:-6]}.{e.text}(…) removes a stored entry")
                if e.kind == "delete" and len(e.args) == 2 and any(e.args[0].key() == f"attr:{a}(self)" for a in memo_attrs):
                    bad = bad or (e.line, f"del {e.text} removes a stored entry")
                if e.kind == "store" and len(e.args) == 2 and e.args[0].key() == "self" and isinstance(e.args[1], Const) and e.args[1].v in memo_attrs:
                    bad = bad or (e.line, f"self.{e.args[1].v} is re-bound: the entries stored so far are dropped")
        n_m += 1
        res.add(f"labrea.cache.MemoryCache.{mn}:never drops a stored entry", bad is None, f, bad[0] if bad else mfn.lineno,
                bad[1] if bad else f"no removal from self.{{{', '.join(sorted(memo_attrs))}}} on any path",
                "a result stored for an option assignment must stay served: an entry that is evicted, popped or cleared makes the body "
                "(and its effects) run again for an assignment it already ran for (C02)")
    if not memo_attrs or n_m < 2:
        raise AnalysisError("MemoryCache: no memo attribute set in __init__ / no methods to check (anchor vanished)")
    # who may construct CacheSetRequest / call Cache.set
    for m in repo.modules.values():
        for fnm, cls, fn, q in _functions(repo, m):
            for c in astu.calls_in(fn):
                if _owner_fn(fn, c) is not fn:
                    continue
                nm = astu.short_name(c)
                if nm == "CacheSetRequest":
                    # Cached.evaluate itself, or a private method of Cached that only Cached.evaluate (transitively) uses
                    ok = q.endswith("Cached.evaluate")
                    if not ok and cls is not None and cls.name == "Cached":
                        ci_ = repo.cls("Cached")
                        users_ = {un for un, ufn in ci_.methods.items() if ufn is not fn
                                  for x in ast.walk(ufn) if isinstance(x, ast.Attribute) and x.attr == fn.name and isinstance(x.value, ast.Name) and x.value.id in ("self", "Cached")}
                        ok = bool(users_) and users_ <= {"evaluate"} | {mn for mn in astu.reachable_self_methods(ci_, ["evaluate"]) if mn not in ("validate", "keys", "explain")} \
                            and fn.name not in astu.reachable_self_methods(ci_, ["validate"]) and fn.name not in astu.reachable_self_methods(ci_, ["keys"]) \
                            and fn.name not in astu.reachable_self_methods(ci_, ["explain"])
                    how_ = f"CacheSetRequest constructed in {q}"
                    if not ok and cls is not None and cls.name.startswith("_"):
                        # a method of a private helper class: allowed when the class is only ever instantiated inside Cached
                        # and the interpreter reaches this construction from Cached.evaluate and from no other operation
                        ci_ = repo.cls("Cached")
                        built_in = [(m2.name, fn2, cls2) for m2 in repo.modules.values() for _, cls2, fn2, q2 in _functions(repo, m2)
                                    for c2 in astu.calls_in(fn2) if astu.short_name(c2) == cls.name]
                        inside = bool(built_in) and all(cls2 is not None and cls2.name == "Cached" for _, fn2, cls2 in built_in)
                        reach = {op_ for op_ in ("evaluate", "validate", "keys", "explain") for p_ in run.paths(ci_, op_)
                                 for e_ in p_.events if e_.kind == "call" and e_.text == "new CacheSetRequest" and e_.line == c.lineno and e_.file == m.relpath}
                        ok = inside and reach == {"evaluate"}
                        how_ += f" (helper class built only inside Cached: {inside}; reached from Cached.{sorted(reach)})"
                    res.add(f"{q}:constructs CacheSetRequest", ok, m.relpath, c.lineno,
                            how_, "only Cached.evaluate, after computing, may request a store (C12, C18)")
                if nm == "set" and isinstance(c.func, ast.Attribute) and len(c.args) == 3 and "cache" in ast.unparse(c.func.value).lower():
                    ok = q.endswith("_set_cache_handler")
                    res.add(f"{q}:calls Cache.set", ok, m.relpath, c.lineno,
                            f"{ast.unparse(c)[:70]} in {q}", "only the set handler may write the backend (C12, C16, C18)")
    return res


def _functions(repo, m):
    from .model import iter_functions
    for mm, cls, fn, q in iter_functions(repo):
        if mm is m:
            yield mm, cls, fn, q


def _owner_fn(fn, node):
    """innermost def containing node (fn itself if not nested)."""
    best = fn
    for n in ast.walk(fn):
        if isinstance(n, (ast.FunctionDef, ast.AsyncFunctionDef)) and n is not fn:
            if n.lineno <= node.lineno <= (n.end_lineno or n.lineno):
                for x in ast.walk(n):
                    if x is node:
                        best = n
    return best


# ------------------------------------------------------------------ R-CE
def rule_CE(run: Run) -> RuleResult:
    """May-raise propagation of CacheGetFailure over the cache module."""
    res = RuleResult("R-CE")
    repo = run.repo
    nec = "a CacheGetFailure that escapes Cached.evaluate/validate turns an unreliable backend into a failed evaluation (C17)"
    cache_mod = repo.modules["labrea.cache"]
    fns: Dict[str, ast.FunctionDef] = {}
    for mm, cls, fn, q in _functions(repo, cache_mod):
        fns[q] = fn
    # handler registry: request class -> handler function names
    handlers: Dict[str, List[str]] = {}
    for req_, qs_ in astu.default_handler_registrations(repo).items():
        for q_ in qs_:
            if q_ in fns:
                handlers.setdefault(req_, []).append(q_)
    # runtime.handle({Req: fn, ...}) swaps
    for n in ast.walk(cache_mod.tree):
        if isinstance(n, ast.Dict):
            for k, v in zip(n.keys, n.values):
                if isinstance(k, ast.Name) and k.id.endswith("Request") and isinstance(v, ast.Name):
                    handlers.setdefault(k.id, []).append(f"labrea.cache.{v.id}")
    failures = sorted(c.name for c in repo.classes.values() if c.module is cache_mod and (c.name == "CacheFailure" or c.is_subclass_of("CacheFailure")))
    if "CacheGetFailure" not in failures:
        raise AnalysisError("CacheGetFailure not found")
    all_may = {}
    for exc_name in failures:
        all_may[exc_name] = _may_raise(repo, cache_mod, fns, handlers, exc_name)
    may, direct_sites = all_may["CacheGetFailure"]
    raisers = sorted(q for q in may)
    from .rules_switch import handler_parts
    parts = handler_parts(run)
    must_not = {"labrea.cache.Cached.evaluate": "labrea.cache.Cached.evaluate", "labrea.cache.Cached.validate": "labrea.cache.Cached.validate",
                "labrea.cache.Cache.exists": "labrea.cache.Cache.exists",
                parts["handlers"]["set"]: "labrea.cache._set_cache_handler", parts["handlers"]["exists"]: "labrea.cache._exists_cache_handler",
                parts["twins"].get("set", "?set-twin"): "labrea.cache._disabled_set_cache_handler",
                parts["twins"].get("exists", "?exists-twin"): "labrea.cache._disabled_exists_cache_handler"}
    for q, label in must_not.items():
        if q not in fns:
            raise AnalysisError(f"anchor {q} ({label}) not found")
        bad = [(n, all_may[n][1].get(q)) for n in failures if q in all_may[n][0]]
        res.add(f"{label}:CacheGetFailure-does-not-escape", not bad, cache_mod.relpath, fns[q].lineno,
                "no cache failure can escape" if not bad else f"{bad[0][0]} may escape: {bad[0][1]}", nec)
    # a handler that caught the backend's failure passes it on at once: anything it does in between (logging, formatting,
    # another request) can fail in its own way and replace the CacheGetFailure that Cached.evaluate knows how to recover from
    from .interp import analyse_function
    for kind in ("get", "set", "exists"):
        hq = parts["handlers"].get(kind)
        if hq not in fns:
            continue
        bad = None
        n_fail = 0
        ctx_ = Ctx(repo)
        ctx_.keep_reraise = True       # the clean-up-and-re-raise paths are the ones looked at here
        for p in analyse_function(ctx_, cache_mod, fns[hq]):
            idx = [i for i, e in enumerate(p.events) if e.failed and e.kind == "call" and e.text in ("get", "set", "exists")
                   and e.target is not None and e.target.key().startswith("attr:cache(")]
            if not idx:
                continue
            n_fail += 1
            after = [e for e in p.events[idx[0] + 1:] if e.kind in ("call", "op", "store", "delete") and not (e.kind == "call" and e.text.startswith("new "))]
            if after and bad is None:
                e = after[0]
                bad = (e.line, f"after the backend's {p.events[idx[0]].text}() failed the handler first runs `{e.text or e.op}` (line {e.line}) before the failure is passed on or absorbed")
        if kind == "get" and n_fail == 0:
            continue
        res.add(f"{hq}:a backend failure is passed on without further work", bad is None, cache_mod.relpath, bad[0] if bad else fns[hq].lineno,
                bad[1] if bad else f"{n_fail} failure path(s): nothing runs between the failing backend call and the handler's exit", nec)
    res.count("functions", len(fns))
    res.notes.append(f"may-raise CacheGetFailure: {raisers}")
    if not any(q.endswith("MemoryCache.get") for q in may):
        raise AnalysisError("R-CE: MemoryCache.get no longer raises CacheGetFailure — propagation has no source")
    return res


def _may_raise(repo, cache_mod, fns, handlers, exc_name):
    def catches(types: List[str]) -> bool:
        for t in types:
            r = exc_is_subclass(repo, exc_name, t)
            if r:
                return True
        return False

    may: Set[str] = set()
    changed = True
    direct_sites = {}
    while changed:
        changed = False
        for q, fn in fns.items():
            if q in may:
                continue
            def with_guard(call, _m=cache_mod):
                r_ = repo.resolve_expr(_m, call.func) if isinstance(call.func, (ast.Name, ast.Attribute)) else None
                return astu.contextmanager_guard(r_[1].node) if r_ and r_[0] == "func" else []
            guards = astu.enclosing_try_types(fn, with_guard)
            hit = None
            for n in astu.walk_no_nested(fn):
                if catches(guards.get(id(n), [])):
                    continue
                if isinstance(n, ast.Raise) and n.exc is not None and isinstance(n.exc, ast.Call) and astu.short_name(n.exc) == exc_name:
                    hit = f"raise at line {n.lineno}"
                elif isinstance(n, ast.Raise) and n.exc is None:
                    # bare re-raise inside a handler that caught it
                    pass
                elif isinstance(n, ast.Call):
                    nm = astu.short_name(n)
                    callees: List[str] = []
                    if nm == "get" and isinstance(n.func, ast.Attribute) and len(n.args) == 2:
                        callees = [k for k in fns if k.endswith(".get")]
                    elif nm == "exists" and isinstance(n.func, ast.Attribute) and len(n.args) == 2:
                        callees = [k for k in fns if k.endswith(".exists")]
                    elif nm == "run" and isinstance(n.func, ast.Attribute) and isinstance(n.func.value, ast.Call):
                        callees = handlers.get(astu.short_name(n.func.value), [])
                    elif isinstance(n.func, ast.Name) and f"labrea.cache.{nm}" in fns:
                        callees = [f"labrea.cache.{nm}"]
                    for k in callees:
                        if k in may:
                            hit = f"call of {k} at line {n.lineno}"
            # `except CacheGetFailure: raise` re-raises
            for n in ast.walk(fn):
                if isinstance(n, ast.ExceptHandler) and n.type is not None and catches([ast.unparse(t) for t in (n.type.elts if isinstance(n.type, ast.Tuple) else [n.type])]):
                    for x in astu.walk_no_nested(n):
                        if isinstance(x, ast.Raise) and (x.exc is None or (n.name and isinstance(x.exc, ast.Name) and x.exc.id == n.name)):
                            hit = f"handler re-raises at line {x.lineno}"
            if hit:
                may.add(q)
                direct_sites[q] = hit
                changed = True
    return may, direct_sites


# ------------------------------------------------------------------ R-LM
def _local_value_memos(fn) -> List[tuple]:
    """[(line, container, key text, why)] — a container created in ``fn`` that is asked `key in container` (or indexed under try/except
    KeyError, or read with .get(key)) and filled, under the same kind of key, with the result of an evaluation; keys that are the
    ``id()`` of an object are left out (the very same object asked twice is one request)."""
    amap = dict(astu.single_assign_map(fn))
    for d_ in ast.walk(fn):
        if isinstance(d_, (ast.FunctionDef, ast.Lambda)) and d_ is not fn and isinstance(d_, ast.FunctionDef):
            for k_, v_ in astu.single_assign_map(d_).items():
                amap.setdefault(k_, v_)
    local = set()
    for st in ast.walk(fn):
        if isinstance(st, (ast.Assign, ast.AnnAssign)) and getattr(st, "value", None) is not None:
            v = st.value
            fresh = isinstance(v, (ast.Dict, ast.Set)) and not (v.keys if isinstance(v, ast.Dict) else v.elts) \
                or (isinstance(v, ast.Call) and isinstance(v.func, ast.Name) and v.func.id in ("dict", "set", "OrderedDict", "defaultdict") and not v.args and not v.keywords)
            if fresh:
                for t in (st.targets if isinstance(st, ast.Assign) else [st.target]):
                    if isinstance(t, ast.Name):
                        local.add(t.id)
    if not local:
        return []

    def key_is_identity(k) -> bool:
        k = astu.expand_locals(k, amap) if isinstance(k, ast.Name) else k
        return isinstance(k, ast.Call) and isinstance(k.func, ast.Name) and k.func.id == "id"

    def evaluates(v) -> bool:
        for c in ast.walk(v):
            if isinstance(c, ast.Call) and isinstance(c.func, ast.Attribute) and c.func.attr in ("evaluate", "transform"):
                return True
            if isinstance(c, ast.Call) and any(isinstance(a, ast.Name) and a.id == "options" for a in c.args) and isinstance(c.func, (ast.Attribute, ast.Call)):
                return True
        return False

    asked = {}
    for x in ast.walk(fn):
        if isinstance(x, ast.Compare) and len(x.ops) == 1 and isinstance(x.ops[0], (ast.In, ast.NotIn)) and isinstance(x.comparators[0], ast.Name) and x.comparators[0].id in local:
            asked.setdefault(x.comparators[0].id, []).append(x.left)
        if isinstance(x, ast.Call) and isinstance(x.func, ast.Attribute) and x.func.attr in ("get", "setdefault") and isinstance(x.func.value, ast.Name) and x.func.value.id in local and x.args:
            asked.setdefault(x.func.value.id, []).append(x.args[0])
    out = []
    for x in ast.walk(fn):
        tgt = val = None
        if isinstance(x, ast.Assign) and len(x.targets) == 1 and isinstance(x.targets[0], ast.Subscript) and isinstance(x.targets[0].value, ast.Name) and x.targets[0].value.id in local:
            tgt, key, val = x.targets[0].value.id, x.targets[0].slice, x.value
        elif isinstance(x, ast.Call) and isinstance(x.func, ast.Attribute) and x.func.attr == "setdefault" and isinstance(x.func.value, ast.Name) and x.func.value.id in local and len(x.args) == 2:
            tgt, key, val = x.func.value.id, x.args[0], x.args[1]
        if tgt is None or tgt not in asked:
            continue
        val = astu.expand_locals(val, amap) if isinstance(val, ast.Name) else val
        if not evaluates(val) or key_is_identity(key):
            continue
        out.append((x.lineno, tgt, ast.unparse(astu.expand_locals(key, amap) if isinstance(key, ast.Name) else key)[:50],
                    f"`{tgt}` hands the result of an earlier evaluation out again for a key that looks the same"))
    return out


def _dedupes_by_value(fn, cls_info=None) -> List[tuple]:
    """[(line, what)] — a loop over expressions (a child collection of the class, or a parameter annotated as a collection of
    Evaluatable) that decides `seen before` by repr()/str()/hash() of the expression or by == (`x in earlier`, `earlier.index(x)`)."""
    def holds_nodes(it) -> bool:
        base = it
        if isinstance(base, ast.Call) and isinstance(base.func, ast.Attribute) and base.func.attr in ("values", "items") and not base.args:
            base = base.func.value
        if isinstance(base, ast.Attribute) and isinstance(base.value, ast.Name) and base.value.id == "self" and cls_info is not None:
            for kc in cls_info.mro():
                ann = kc.annotations.get(base.attr)
                if ann is not None and "Evaluatable" in ast.unparse(ann):
                    return True
        if isinstance(base, ast.Name):
            for a_ in fn.args.posonlyargs + fn.args.args + fn.args.kwonlyargs + ([fn.args.vararg] if fn.args.vararg else []):
                if a_.arg == base.id and a_.annotation is not None and "Evaluatable" in ast.unparse(a_.annotation):
                    return True
        return False

    fresh = set()
    for st in ast.walk(fn):
        if isinstance(st, (ast.Assign, ast.AnnAssign)) and getattr(st, "value", None) is not None:
            v = st.value
            if (isinstance(v, (ast.Dict, ast.Set, ast.List)) and not (v.keys if isinstance(v, ast.Dict) else v.elts)) or (
                    isinstance(v, ast.Call) and isinstance(v.func, ast.Name) and v.func.id in ("dict", "set", "list", "OrderedDict") and not v.args and not v.keywords):
                for t in (st.targets if isinstance(st, ast.Assign) else [st.target]):
                    if isinstance(t, ast.Name):
                        fresh.add(t.id)
    out = []
    for loop in ast.walk(fn):
        if not (isinstance(loop, ast.For) and isinstance(loop.target, (ast.Name, ast.Tuple)) and holds_nodes(loop.iter)):
            continue
        names = {n_.id for n_ in ast.walk(loop.target) if isinstance(n_, ast.Name)}
        amap = astu.single_assign_map(fn)

        def by_text(k) -> bool:
            k = astu.expand_locals(k, amap) if isinstance(k, ast.Name) and k.id not in names else k
            return isinstance(k, ast.Call) and isinstance(k.func, ast.Name) and k.func.id in ("repr", "str", "hash") and len(k.args) == 1 \
                and isinstance(k.args[0], ast.Name) and k.args[0].id in names

        for x in ast.walk(loop):
            if isinstance(x, ast.Call) and isinstance(x.func, ast.Attribute) and isinstance(x.func.value, ast.Name) and x.func.value.id in fresh and x.args:
                if x.func.attr in ("setdefault", "add", "get", "__contains__") and by_text(x.args[0]):
                    out.append((x.lineno, f"`{ast.unparse(x)[:60]}`: expressions that print alike are taken for one"))
                if x.func.attr == "index" and isinstance(x.args[0], ast.Name) and x.args[0].id in names:
                    out.append((x.lineno, f"`{ast.unparse(x)[:60]}`: == between expressions (Value(1) == Value(True)) decides which one is meant"))
            if isinstance(x, ast.Subscript) and isinstance(x.value, ast.Name) and x.value.id in fresh and by_text(x.slice):
                out.append((x.lineno, f"`{ast.unparse(x)[:60]}`: expressions that print alike are taken for one"))
            if isinstance(x, ast.Compare) and len(x.ops) == 1 and isinstance(x.ops[0], (ast.In, ast.NotIn)) and isinstance(x.comparators[0], ast.Name) and x.comparators[0].id in fresh:
                if by_text(x.left):
                    out.append((x.lineno, f"`{ast.unparse(x)[:60]}`: expressions that print alike are taken for one"))
                elif isinstance(x.left, ast.Name) and x.left.id in names:
                    out.append((x.lineno, f"`{ast.unparse(x)[:60]}`: == between expressions (Value(1) == Value(True)) decides whether one was seen before"))
    return out


def rule_LM(run: Run) -> RuleResult:
    """Within one evaluation, results are reused through the cache only."""
    res = RuleResult("R-LM")
    repo = run.repo
    nec = ("whether a repeated evaluation may be answered from an earlier result is the cache's decision — and that of the switches that turn it off: "
           "an expression that keeps the results of its parts in a table of its own for the duration of one evaluate() (a Map over repeated "
           "option sets, arguments that look alike) hands them out again with caching disabled, runs effects and the log request once instead of "
           "once per evaluation (C16), and, keyed by repr or by value, confuses parts that merely look the same")
    probe = ast.parse("def evaluate(self, options):\n    seen = {}\n    for x in self.parts:\n        k = repr(x)\n        if k not in seen:\n            seen[k] = x.evaluate(options)\n        yield seen[k]\n").body[0]
    if not _local_value_memos(probe):
        raise AnalysisError("R-LM: the detector no longer sees its positive example")
    n = 0
    for ci in repo.classes.values():
        if ci.module.name.startswith("labrea.mypy") or not (ci.is_subclass_of("Evaluatable") or ci.is_subclass_of("Effect")):
            continue
        starts = [m_ for m_ in ("evaluate", "transform", "__call__") if m_ in ci.methods]
        if not starts:
            continue
        n += 1
        hits = []
        for mn, fn in astu.reachable_self_methods(ci, starts).items():
            if mn in ("validate", "keys", "explain", "__init__", "__repr__"):
                continue
            for h in _local_value_memos(fn):
                hits.append((mn,) + h)
        res.add(f"{ci.qualname}:keeps no table of results of its own during an evaluation", not hits, ci.module.relpath, hits[0][1] if hits else ci.node.lineno,
                "no local value-keyed memo on the evaluation path" if not hits else f"{hits[0][0]}: {hits[0][4]} (key {hits[0][3]})", nec)
    if n < 20:
        raise AnalysisError(f"R-LM: only {n} classes with an evaluation path found")
    # the module-level helpers the operations call evaluate on their behalf
    for fi in repo.functions.values():
        if fi.module.name.startswith("labrea.mypy"):
            continue
        for h in _local_value_memos(fi.node):
            res.add(f"{fi.module.name}.{fi.node.name}:keeps no table of results of its own during an evaluation", False, fi.module.relpath, h[0], f"{h[3]} (key {h[2]})", nec)
    # ... and the parts of an expression are told apart by identity alone: two Options with the same key but different domains print alike,
    # Value(1) == Value(True); collapsing such parts drops the second one's keys, validation, requests and value
    probe2 = ast.parse("def f(parts: 'Iterable[Evaluatable]'):\n    seen = {}\n    for part in parts:\n        seen.setdefault(repr(part), part)\n    return list(seen.values())\n").body[0]
    if not _dedupes_by_value(probe2):
        raise AnalysisError("R-LM: the dedupe detector no longer sees its positive example")
    n_f = 0
    from .model import iter_functions
    for m, cls_node, fn, q in iter_functions(repo):
        if m.name.startswith("labrea.mypy"):
            continue
        n_f += 1
        ci = repo.classes.get(f"{m.name}.{cls_node.name}") if cls_node is not None else None
        for line_, what in _dedupes_by_value(fn, ci):
            res.add(f"{q}:tells the parts of an expression apart by identity", False, m.relpath, line_, what, nec)
    res.add("labrea:every function tells the parts of an expression apart by identity (never by repr, str, hash or ==)", True, "labrea/types.py", 1, f"{n_f} functions inspected", nec, trivial=True)
    res.count("classes", n)
    return res


# ------------------------------------------------------------------ R-OS
def rule_OS(run: Run) -> RuleResult:
    res = RuleResult("R-OS")
    nec = ("a one-shot iterator stored by Cached is exhausted after the first consumer, so the second "
           "cache hit yields nothing; child failures are deferred past the request boundary")
    for cls in run.node_classes():
        owner, fn = cls.find_method("evaluate")
        if owner is not cls:
            continue
        gens = [n for n in astu.walk_no_nested(fn) if isinstance(n, (ast.Yield, ast.YieldFrom))]
        ret_gen = [n for n in astu.walk_no_nested(fn) if isinstance(n, ast.Return) and isinstance(n.value, ast.GeneratorExp)]
        amap = astu.single_assign_map(fn)
        for n in astu.walk_no_nested(fn):
            if isinstance(n, ast.Return) and isinstance(n.value, ast.Name) and isinstance(amap.get(n.value.id), ast.GeneratorExp):
                ret_gen.append(n)
        ok = not gens and not ret_gen
        res.add(f"{cls.qualname}.evaluate:one-shot-result", ok, owner.module.relpath, fn.lineno,
                "returns a re-iterable value" if ok else "evaluate returns a generator (one-shot iterator)", nec)
    # lambdas passed to .apply(...) inside labrea (not helper steps of functions.py)
    for m in run.repo.modules.values():
        if m.name.endswith(".functions"):
            continue
        for c in astu.calls_in(m.tree):
            if astu.short_name(c) == "apply" and c.args and isinstance(c.args[0], ast.Lambda):
                lam = c.args[0]
                ok = not isinstance(lam.body, ast.GeneratorExp)
                q = _enclosing_qual(run.repo, m, c)
                res.add(f"{q}:apply-lambda one-shot-result", ok, m.relpath, c.lineno,
                        f"lambda passed to .apply returns {'a generator' if not ok else 'a value'}: {ast.unparse(lam)[:70]}", nec)
    return res


def _enclosing_qual(repo, m, node) -> str:
    best = m.name
    from .model import iter_functions
    for mm, cls, fn, q in iter_functions(repo):
        if mm is m and fn.lineno <= node.lineno <= (fn.end_lineno or fn.lineno):
            if len(q) > len(best):
                best = q
    return best


# ------------------------------------------------------------------ R-RK
def _confectioner_resolve_kinds() -> Optional[Set[str]]:
    """Kinds that ``confectioner.templating.resolve`` recurses into, read from
    its source (not imported)."""
    import glob
    cands = glob.glob("/venv/lib/python3*/site-packages/confectioner/templating.py")
    for base in os.environ.get("LABREA_SITE", "").split(":"):
        if base:
            cands.append(os.path.join(base, "confectioner", "templating.py"))
    for path in cands:
        if os.path.exists(path):
            tree = ast.parse(open(path).read())
            for n in tree.body:
                if isinstance(n, ast.FunctionDef) and n.name == "resolve":
                    kinds = set()
                    for x in ast.walk(n):
                        if isinstance(x, ast.Call) and astu.short_name(x) == "isinstance" and len(x.args) == 2 and isinstance(x.args[0], ast.Name) and x.args[0].id == "o":
                            t = x.args[1]
                            for y in (t.elts if isinstance(t, ast.Tuple) else [t]):
                                kinds.add(ast.unparse(y))
                    return kinds
    return None


_KIND_EQ = {"Mapping": {"Mapping", "dict", "Dict", "MutableMapping"}, "list": {"list", "List", "Sequence"}, "str": {"str"}}


def rule_RK(run: Run) -> RuleResult:
    res = RuleResult("R-RK")
    nec = ("resolve() follows {KEY} references inside lists and mappings; a reference that evaluation "
           "follows and keys() does not report is a stale-cache key: Option('A') under "
           "{'A': ['{B}'], 'B': 1} then B: 2 shares a fingerprint")
    from . import valueflow as vf
    kinds = _confectioner_resolve_kinds()
    if kinds is None:
        raise AnalysisError("confectioner.templating.resolve source not found")
    followed = {k.split(".")[-1] for k in kinds}
    res.notes.append(f"resolve() recurses into {sorted(followed)}")
    opt = run.repo.cls("Option")
    tmpl = run.repo.cls("Template")
    judged = {}
    for op in ("keys", "explain"):
        fn = opt.methods.get(op)
        if fn is None:
            raise AnalysisError(f"Option.{op} not found")
        starts = [mfn for mn, mfn in astu.reachable_self_methods(opt, [op]).items()
                  if mn == op or mn not in ("keys", "explain", "evaluate", "validate")]
        def is_origin(c, _d=0):
            # the looked-up value: get_dotted_key()/resolve(), or a helper of the repository that returns one
            if astu.short_name(c) in ("get_dotted_key", "resolve"):
                return True
            r = vf.resolve_call(run.repo, opt.module, opt, c) if _d < 2 else None
            return bool(r and any(isinstance(x, ast.Return) and isinstance(x.value, ast.Call) and is_origin(x.value, _d + 1)
                                  for x in astu.walk_no_nested(r[2])))
        walks = vf.find_walks(run.repo, opt, starts, is_origin)
        if not walks:
            raise AnalysisError(f"Option.{op}: the looked-up value is not bound to a local (anchor vanished)")
        inspected: Set[str] = set()
        for module, c, wfn, fl, cursors in walks:
            def is_template_call(x, _m=module):
                r = run.repo.resolve_expr(_m, x.func) if isinstance(x.func, (ast.Name, ast.Attribute)) else None
                return bool(r and r[0] == "class" and r[1] is tmpl)
            seen, problems, n = vf.check_walk(fl, cursors, followed, _KIND_EQ, is_template_call)
            inspected |= seen
            if n:
                judged[(module.relpath, (c.name + "." if c else "") + wfn.name, wfn.lineno)] = (problems, n)
        for k in sorted(followed):
            ok = k in inspected
            res.add(f"labrea.option.Option.{op}:value-kind {k} inspected-for-templates", ok, opt.module.relpath, fn.lineno,
                    f"resolve() follows references inside {k}; Option.{op} inspects kinds {sorted(inspected)}", nec)
    # def-use part (sa/valueflow.py): in every function the value is handed to, a branch that recognises a kind
    # must actually inspect it: strings through Template, containers by sending their elements (a mapping's
    # values) back to a variable that is tested for every kind again (any nesting depth)
    for (rel, name, line), (problems, n) in sorted(judged.items()):
        modname = rel[:-3].replace("/", ".")
        res.add(f"{modname}.{name}:every recognised kind is inspected (containers recursively)", not problems, rel, line,
                f"{n} kind branches, all inspect their value" if not problems else problems[0], nec)
    res.count("value-walk functions", len(judged))
    if not judged:
        raise AnalysisError("R-RK: no function tests the kind of the looked-up value (anchor vanished)")
    # ... and the same holds wherever else in the library a provided option value is asked whether it is a string (in order to decide
    # that it "cannot be a template" and answer with the key alone): a function that tests a looked-up value for str tests it for the
    # kinds resolve() recurses into as well — or hands it to the function that does
    probe = ast.parse("def f(key, options):\n    v = get_dotted_key(key, options)\n    if not isinstance(v, str):\n        return {key}\n    return Template(v).keys(options)\n").body[0]
    if not _str_only_value_tests(probe, followed):
        raise AnalysisError("R-RK: the str-only detector no longer sees its positive example")
    from .model import iter_functions
    n_f = 0
    for m, cls_node, fn, q in iter_functions(run.repo):
        if m.name.startswith("labrea.mypy"):
            continue
        n_f += 1
        for line_, what in _str_only_value_tests(fn, followed):
            res.add(f"{q}:a provided value tested for str is tested for the kinds resolve() follows too", False, m.relpath, line_, what, nec)
    res.add("labrea:every test of a provided option value for str comes with the tests for the container kinds", True, "labrea/option.py", 1,
            f"{n_f} functions inspected", nec, trivial=True)
    return res


def _str_only_value_tests(fn, followed) -> List[tuple]:
    """[(line, what)] — ``isinstance(v, str)`` on a local bound to a looked-up option value (get_dotted_key / options[...] / options.get /
    resolve) in a function that never tests the same local for the container kinds resolve() follows (list, Mapping/dict) and never hands
    it to another function of the library (which may do so)."""
    origins = {}
    for st in astu.walk_no_nested(fn):
        if isinstance(st, (ast.Assign, ast.AnnAssign)) and getattr(st, "value", None) is not None:
            v = st.value
            looked = (isinstance(v, ast.Call) and astu.short_name(v) in ("get_dotted_key", "resolve")) or \
                (isinstance(v, ast.Call) and isinstance(v.func, ast.Attribute) and v.func.attr == "get" and "options" in ast.unparse(v.func.value).lower()) or \
                (isinstance(v, ast.Subscript) and "options" in ast.unparse(v.value).lower())
            if looked:
                for t in (st.targets if isinstance(st, ast.Assign) else [st.target]):
                    if isinstance(t, ast.Name):
                        origins[t.id] = st.lineno
    if not origins:
        return []
    out = []
    CONTAINERS = {"list", "tuple", "List", "Sequence", "Mapping", "dict", "Dict", "MutableMapping", "Iterable", "Collection"}
    for name, ln in origins.items():
        str_tests, container_tests, handed_on = [], False, False
        for x in astu.walk_no_nested(fn):
            if isinstance(x, ast.Call) and isinstance(x.func, ast.Name) and x.func.id == "isinstance" and len(x.args) == 2 and isinstance(x.args[0], ast.Name) and x.args[0].id == name:
                kinds = {ast.unparse(k_).split(".")[-1] for k_ in (x.args[1].elts if isinstance(x.args[1], ast.Tuple) else [x.args[1]])}
                if kinds == {"str"}:
                    str_tests.append(x.lineno)
                if kinds & CONTAINERS:
                    container_tests = True
            elif isinstance(x, ast.Call) and any(isinstance(a_, ast.Name) and a_.id == name for a_ in x.args) and not (
                    isinstance(x.func, ast.Name) and x.func.id in ("isinstance", "str", "repr", "len", "type", "bool", "find_template_keys", "hash", "id", "print", "Template")) \
                    and not (isinstance(x.func, ast.Attribute) and x.func.attr in ("add", "append", "format", "debug", "info")):
                handed_on = True
        if str_tests and not container_tests and not handed_on:
            out.append((str_tests[0], f"`isinstance({name}, str)` is the only kind test of the value looked up at line {ln}: a list or mapping holding "
                                      "templated strings is taken for free of references (its keys are answered without the keys it refers to)"))
    return out
