"""Obligations, known findings, evidence files, exit codes."""
from __future__ import annotations

import json
import os
import time
from dataclasses import dataclass, field
from typing import Dict, List, Optional

VERIF = os.path.dirname(os.path.dirname(os.path.abspath(__file__)))
EVIDENCE_DIR = os.path.join(VERIF, "evidence")
KNOWN_FILE = os.path.join(VERIF, "known_findings.json")


@dataclass
class Obligation:
    rule: str
    construct: str  # normalised identity, no line numbers
    ok: bool
    file: str = ""
    line: int = 0
    detail: str = ""
    necessity: str = ""
    trivial: bool = False  # e.g. class without children

    def loc(self) -> str:
        return f"{self.file}:{self.line}" if self.file else ""

    def as_sample(self) -> dict:
        return {
            "rule": self.rule,
            "construct": self.construct,
            "at": self.loc(),
            "ok": self.ok,
            "detail": self.detail[:400],
        }


@dataclass
class RuleResult:
    rule: str
    obligations: List[Obligation] = field(default_factory=list)
    analysed: Dict[str, int] = field(default_factory=dict)
    notes: List[str] = field(default_factory=list)

    def add(self, construct, ok, file="", line=0, detail="", necessity="", trivial=False):
        self.obligations.append(
            Obligation(self.rule, construct, bool(ok), file, line, detail, necessity, trivial)
        )

    def count(self, key, n=1):
        self.analysed[key] = self.analysed.get(key, 0) + n


def load_known() -> List[dict]:
    if not os.path.exists(KNOWN_FILE):
        return []
    with open(KNOWN_FILE) as f:
        data = json.load(f)
    return data.get("findings", [])


def match_known(prop: str, ob: Obligation, known: List[dict]) -> Optional[dict]:
    for k in known:
        if k.get("status") != "known":
            continue
        if k.get("rule") == ob.rule and k.get("construct") == ob.construct and prop in k.get("properties", [k.get("property")]):
            return k
    return None


def write_evidence(prop: str, tier: str, seed: int, coverage: dict, assumptions: List[str],
                   wall: float, violations: int):
    os.makedirs(EVIDENCE_DIR, exist_ok=True)
    ev = {
        "property_id": prop,
        "tier": tier,
        "seed": seed,
        "level": "other",
        "coverage": coverage,
        "assumptions": assumptions,
        "wall_s": round(wall, 3),
        "violations": violations,
    }
    path = os.path.join(EVIDENCE_DIR, f"{prop}.json")
    tmp = path + ".tmp"
    with open(tmp, "w") as f:
        json.dump(ev, f, indent=1, sort_keys=True, default=str)
    os.replace(tmp, path)
    return path


def write_replay(prop: str, n: int, ob: Obligation) -> str:
    d = os.path.join(EVIDENCE_DIR, "replay")
    os.makedirs(d, exist_ok=True)
    path = os.path.join(d, f"{prop}-{n}.json")
    with open(path, "w") as f:
        json.dump({"property": prop, **ob.as_sample(), "necessity": ob.necessity}, f, indent=1)
    return path
