"""Small AST utilities shared by the structural rules."""
from __future__ import annotations

import ast
from typing import Dict, Iterator, List, Optional, Tuple


def callee_name(call: ast.Call) -> str:
    try:
        return ast.unparse(call.func)
    except Exception:  # pragma: no cover
        return "?"


def short_name(call: ast.Call) -> str:
    f = call.func
    if isinstance(f, ast.Attribute):
        return f.attr
    if isinstance(f, ast.Name):
        return f.id
    return ""


def calls_in(node: ast.AST) -> Iterator[ast.Call]:
    for n in ast.walk(node):
        if isinstance(n, ast.Call):
            yield n


def walk_no_nested(node: ast.AST) -> Iterator[ast.AST]:
    """Walk without descending into nested function/class/lambda bodies."""
    stack = list(ast.iter_child_nodes(node))
    while stack:
        n = stack.pop()
        yield n
        if isinstance(n, (ast.FunctionDef, ast.AsyncFunctionDef, ast.ClassDef, ast.Lambda)):
            continue
        stack.extend(ast.iter_child_nodes(n))


def single_assign_map(fn: ast.AST) -> Dict[str, ast.expr]:
    """Locals assigned exactly once by a plain ``name = expr``."""
    counts: Dict[str, int] = {}
    exprs: Dict[str, ast.expr] = {}
    for n in walk_no_nested(fn):
        targets = []
        if isinstance(n, ast.Assign):
            targets = [(t, n.value) for t in n.targets]
        elif isinstance(n, ast.AnnAssign) and n.value is not None:
            targets = [(n.target, n.value)]
        elif isinstance(n, ast.AugAssign):
            targets = [(n.target, None)]
        elif isinstance(n, (ast.For, ast.comprehension)):
            for x in ast.walk(n.target):
                if isinstance(x, ast.Name):
                    counts[x.id] = counts.get(x.id, 0) + 2
        elif isinstance(n, ast.NamedExpr):
            targets = [(n.target, n.value)]
        for t, v in targets:
            if isinstance(t, ast.Name):
                counts[t.id] = counts.get(t.id, 0) + 1
                if v is not None:
                    exprs[t.id] = v
            elif isinstance(t, (ast.Tuple, ast.List)):
                for x in ast.walk(t):
                    if isinstance(x, ast.Name):
                        counts[x.id] = counts.get(x.id, 0) + 2
    return {k: v for k, v in exprs.items() if counts.get(k) == 1}


class _Subst(ast.NodeTransformer):
    def __init__(self, amap, params, depth=0):
        self.amap = amap
        self.params = params
        self.depth = depth

    def visit_Name(self, node):
        if isinstance(node.ctx, ast.Load) and node.id in self.amap and node.id not in self.params and self.depth < 6:
            import copy
            sub = copy.deepcopy(self.amap[node.id])
            return _Subst(self.amap, self.params | {node.id}, self.depth + 1).visit(sub)
        return node

    def visit_Lambda(self, node):
        return node


def expand_locals(expr: ast.expr, amap: Dict[str, ast.expr], keep=frozenset()) -> ast.expr:
    """Replace single-assignment locals by their defining expressions."""
    import copy
    return ast.fix_missing_locations(_Subst(amap, set(keep)).visit(copy.deepcopy(expr)))


def norm_opts(expr: ast.expr) -> str:
    """Normal form of an options expression: ``options or {}`` == ``options``."""
    e = expr
    while isinstance(e, ast.BoolOp) and isinstance(e.op, ast.Or) and len(e.values) == 2:
        b = e.values[1]
        if isinstance(b, ast.Dict) and not b.keys:
            e = e.values[0]
        else:
            break
    return ast.unparse(e)


def enclosing_try_types(fn: ast.AST) -> Dict[int, List[str]]:
    """id(node) -> exception type texts of the ``try`` bodies lexically
    enclosing it (only the *body* of a try is guarded)."""
    out: Dict[int, List[str]] = {}

    def visit(n, guards):
        out[id(n)] = guards
        if isinstance(n, ast.Try):
            types = []
            for h in n.handlers:
                if h.type is None:
                    types.append("BaseException")
                elif isinstance(h.type, ast.Tuple):
                    types.extend(ast.unparse(t) for t in h.type.elts)
                else:
                    types.append(ast.unparse(h.type))
            for s in n.body:
                visit(s, guards + types)
            for h in n.handlers:
                visit(h, guards)
            for s in n.orelse + n.finalbody:
                visit(s, guards)
            return
        if isinstance(n, (ast.FunctionDef, ast.AsyncFunctionDef, ast.Lambda, ast.ClassDef)) and n is not fn:
            for c in ast.iter_child_nodes(n):
                visit(c, [])
            return
        for c in ast.iter_child_nodes(n):
            visit(c, guards)

    visit(fn, [])
    return out


def is_self_attr(e: ast.AST, attr: Optional[str] = None, selfname="self") -> bool:
    return (isinstance(e, ast.Attribute) and isinstance(e.value, ast.Name)
            and e.value.id == selfname and (attr is None or e.attr == attr))


def first_param(fn) -> str:
    a = fn.args
    names = [x.arg for x in a.posonlyargs + a.args]
    return names[0] if names else "self"


def param_names(fn, skip_self=True) -> List[str]:
    a = fn.args
    names = [x.arg for x in a.posonlyargs + a.args]
    if skip_self and names:
        names = names[1:]
    return names + [x.arg for x in a.kwonlyargs]


def contains_name(node: ast.AST, name: str) -> bool:
    return any(isinstance(n, ast.Name) and n.id == name for n in ast.walk(node))


def parent_map(root: ast.AST) -> Dict[int, ast.AST]:
    pm: Dict[int, ast.AST] = {}
    for n in ast.walk(root):
        for c in ast.iter_child_nodes(n):
            pm[id(c)] = n
    return pm
