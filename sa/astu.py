"""Small AST utilities shared by the structural rules."""
from __future__ import annotations

import ast
from typing import Dict, Iterator, List, Optional, Tuple


def callee_name(call: ast.Call) -> str:
    try:
        return ast.unparse(call.func)
    except Exception:  # pragma: no cover
        return "?"


def short_name(call: ast.Call) -> str:
    f = call.func
    if isinstance(f, ast.Attribute):
        return f.attr
    if isinstance(f, ast.Name):
        return f.id
    return ""


def calls_in(node: ast.AST) -> Iterator[ast.Call]:
    for n in ast.walk(node):
        if isinstance(n, ast.Call):
            yield n


def walk_no_nested(node: ast.AST) -> Iterator[ast.AST]:
    """Walk without descending into nested function/class/lambda bodies."""
    stack = list(ast.iter_child_nodes(node))
    while stack:
        n = stack.pop()
        yield n
        if isinstance(n, (ast.FunctionDef, ast.AsyncFunctionDef, ast.ClassDef, ast.Lambda)):
            continue
        stack.extend(ast.iter_child_nodes(n))


def single_assign_map(fn: ast.AST) -> Dict[str, ast.expr]:
    """Locals assigned exactly once by a plain ``name = expr``."""
    counts: Dict[str, int] = {}
    exprs: Dict[str, ast.expr] = {}
    for n in walk_no_nested(fn):
        targets = []
        if isinstance(n, ast.Assign):
            targets = [(t, n.value) for t in n.targets]
        elif isinstance(n, ast.AnnAssign) and n.value is not None:
            targets = [(n.target, n.value)]
        elif isinstance(n, ast.AugAssign):
            targets = [(n.target, None)]
        elif isinstance(n, (ast.For, ast.comprehension)):
            for x in ast.walk(n.target):
                if isinstance(x, ast.Name):
                    counts[x.id] = counts.get(x.id, 0) + 2
        elif isinstance(n, ast.NamedExpr):
            targets = [(n.target, n.value)]
        for t, v in targets:
            if isinstance(t, ast.Name):
                counts[t.id] = counts.get(t.id, 0) + 1
                if v is not None:
                    exprs[t.id] = v
            elif isinstance(t, (ast.Tuple, ast.List)):
                for x in ast.walk(t):
                    if isinstance(x, ast.Name):
                        counts[x.id] = counts.get(x.id, 0) + 2
    return {k: v for k, v in exprs.items() if counts.get(k) == 1}


class _Subst(ast.NodeTransformer):
    def __init__(self, amap, params, depth=0):
        self.amap = amap
        self.params = params
        self.depth = depth

    def visit_Name(self, node):
        if isinstance(node.ctx, ast.Load) and node.id in self.amap and node.id not in self.params and self.depth < 6:
            import copy
            sub = copy.deepcopy(self.amap[node.id])
            return _Subst(self.amap, self.params | {node.id}, self.depth + 1).visit(sub)
        return node

    def visit_Lambda(self, node):
        return node


def expand_locals(expr: ast.expr, amap: Dict[str, ast.expr], keep=frozenset()) -> ast.expr:
    """Replace single-assignment locals by their defining expressions."""
    import copy
    return ast.fix_missing_locations(_Subst(amap, set(keep)).visit(copy.deepcopy(expr)))


def norm_opts(expr: ast.expr) -> str:
    """Normal form of an options expression: ``options or {}`` == ``options``."""
    e = expr
    while True:
        if isinstance(e, ast.BoolOp) and isinstance(e.op, ast.Or) and len(e.values) == 2 and isinstance(e.values[1], ast.Dict) and not e.values[1].keys:
            e = e.values[0]
        elif isinstance(e, ast.IfExp) and isinstance(e.orelse, ast.Dict) and not e.orelse.keys and ast.unparse(e.test) == ast.unparse(e.body):
            e = e.body          # ``options if options else {}`` is ``options or {}``
        else:
            break
    return ast.unparse(e)


def contextmanager_guard(fn: ast.AST) -> List[str]:
    """Exception types that a ``@contextmanager`` generator absorbs for the block it manages: the handlers of the
    ``try`` statements around its single ``yield`` that can end without raising."""
    if not any(ast.unparse(d).split(".")[-1] == "contextmanager" for d in getattr(fn, "decorator_list", [])):
        return []
    pm = parent_map(fn)
    ys = [x for x in walk_no_nested(fn) if isinstance(x, ast.Yield)]
    if len(ys) != 1:
        return []
    types: List[str] = []
    cur: ast.AST = ys[0]
    while id(cur) in pm:
        par = pm[id(cur)]
        if isinstance(par, ast.Try) and cur in par.body:
            for h in par.handlers:
                ends_in_raise = bool(h.body) and isinstance(h.body[-1], ast.Raise)
                if ends_in_raise:
                    continue
                if h.type is None:
                    types.append("BaseException")
                elif isinstance(h.type, ast.Tuple):
                    types.extend(ast.unparse(t) for t in h.type.elts)
                else:
                    types.append(ast.unparse(h.type))
        cur = par
    return types


def enclosing_try_types(fn: ast.AST, with_guard=None) -> Dict[int, List[str]]:
    """id(node) -> exception type texts of the ``try`` bodies lexically
    enclosing it (only the *body* of a try is guarded).  ``with_guard(call)`` may name the exception types that a
    ``with <call>:`` block absorbs (a generator-based context manager of the repository)."""
    out: Dict[int, List[str]] = {}

    def visit(n, guards):
        out[id(n)] = guards
        if isinstance(n, ast.With) and with_guard is not None:
            extra: List[str] = []
            for it in n.items:
                visit(it, guards)
                if isinstance(it.context_expr, ast.Call):
                    extra += with_guard(it.context_expr) or []
            for s in n.body:
                visit(s, guards + extra)
            return
        if isinstance(n, ast.Try):
            types = []
            for h in n.handlers:
                if h.type is None:
                    types.append("BaseException")
                elif isinstance(h.type, ast.Tuple):
                    types.extend(ast.unparse(t) for t in h.type.elts)
                else:
                    types.append(ast.unparse(h.type))
            for s in n.body:
                visit(s, guards + types)
            for h in n.handlers:
                visit(h, guards)
            for s in n.orelse + n.finalbody:
                visit(s, guards)
            return
        if isinstance(n, (ast.FunctionDef, ast.AsyncFunctionDef, ast.Lambda, ast.ClassDef)) and n is not fn:
            for c in ast.iter_child_nodes(n):
                visit(c, [])
            return
        for c in ast.iter_child_nodes(n):
            visit(c, guards)

    visit(fn, [])
    return out


def is_self_attr(e: ast.AST, attr: Optional[str] = None, selfname="self") -> bool:
    return (isinstance(e, ast.Attribute) and isinstance(e.value, ast.Name)
            and e.value.id == selfname and (attr is None or e.attr == attr))


def first_param(fn) -> str:
    a = fn.args
    names = [x.arg for x in a.posonlyargs + a.args]
    return names[0] if names else "self"


def param_names(fn, skip_self=True) -> List[str]:
    a = fn.args
    names = [x.arg for x in a.posonlyargs + a.args]
    if skip_self and names:
        names = names[1:]
    return names + [x.arg for x in a.kwonlyargs]


def contains_name(node: ast.AST, name: str) -> bool:
    return any(isinstance(n, ast.Name) and n.id == name for n in ast.walk(node))


def parent_map(root: ast.AST) -> Dict[int, ast.AST]:
    pm: Dict[int, ast.AST] = {}
    for n in ast.walk(root):
        for c in ast.iter_child_nodes(n):
            pm[id(c)] = n
    return pm


class _ParamSubst(ast.NodeTransformer):
    def __init__(self, mapping):
        self.mapping = mapping

    def visit_Name(self, node):
        if isinstance(node.ctx, ast.Load) and node.id in self.mapping:
            import copy
            return copy.deepcopy(self.mapping[node.id])
        return node


def simple_return(fn) -> Optional[ast.expr]:
    """The single returned expression of a helper whose body is only local
    single assignments (and a docstring) followed by one ``return``; locals are
    expanded.  None when the helper is not of that shape."""
    body = [s for s in fn.body if not (isinstance(s, ast.Expr) and isinstance(s.value, ast.Constant))]
    if not body or not isinstance(body[-1], ast.Return) or body[-1].value is None:
        return None
    for s in body[:-1]:
        if not isinstance(s, (ast.Assign, ast.AnnAssign)):
            return None
    amap = single_assign_map(fn)
    return expand_locals(body[-1].value, amap)


def inline_helpers(expr: ast.expr, resolve, depth: int = 0) -> ast.expr:
    """Inline calls of simple one-return helpers (see ``simple_return``).
    ``resolve(call)`` returns (FunctionDef, skip_first_param) or None."""
    import copy

    class T(ast.NodeTransformer):
        def visit_Call(self, node):
            self.generic_visit(node)
            if depth > 4:
                return node
            r = resolve(node)
            if r is None:
                return node
            fn, skip = r[0], r[1]
            self_expr = r[2] if len(r) > 2 else None
            ret = simple_return(fn)
            if ret is None:
                return node
            params = [a.arg for a in fn.args.posonlyargs + fn.args.args]
            mapping = {}
            if skip and params:
                if self_expr is not None:
                    mapping[params[0]] = self_expr      # method of another object: its self is that object
                params = params[1:]
            for p_, a in zip(params, node.args):
                if isinstance(a, ast.Starred):
                    return node
                mapping[p_] = a
            for k in node.keywords:
                if k.arg is None:
                    return node
                mapping[k.arg] = k.value
            defaults = fn.args.defaults
            all_params = [a.arg for a in fn.args.posonlyargs + fn.args.args]
            for p_, d in zip(all_params[len(all_params) - len(defaults):], defaults):
                mapping.setdefault(p_, d)
            if any(p_ not in mapping for p_ in params):
                return node
            out = _ParamSubst(mapping).visit(copy.deepcopy(ret))
            return inline_helpers(out, resolve, depth + 1)

    return ast.fix_missing_locations(T().visit(copy.deepcopy(expr)))


def class_resolver(repo, cls_info, selfnames=("self", "cls")):
    """resolver for ``inline_helpers``: self.h(...), Cls.h(...), module-level h(...)."""
    def resolve(call: ast.Call):
        f = call.func
        if isinstance(f, ast.Attribute) and isinstance(f.value, ast.Name):
            if f.value.id in selfnames or (cls_info is not None and f.value.id == cls_info.name):
                r = cls_info.find_method(f.attr) if cls_info is not None else None
                if r is not None:
                    fn = r[1]
                    decos = [ast.unparse(d) for d in fn.decorator_list]
                    if "property" in decos:
                        return None
                    return fn, "staticmethod" not in decos
        if isinstance(f, ast.Name) and cls_info is not None:
            r = repo.resolve_name(cls_info.module, f.id)
            if r and r[0] == "func":
                return r[1].node, False
        return None
    return resolve


def reachable_self_methods(cls_info, start: List[str]) -> Dict[str, ast.AST]:
    """Methods reached from ``start`` through self.<m>/cls.<m>/Cls.<m> (incl. module helpers named in calls)."""
    out: Dict[str, ast.AST] = {}
    work = list(start)
    while work:
        n = work.pop()
        if n in out:
            continue
        r = cls_info.find_method(n)
        if r is None:
            continue
        out[n] = r[1]
        for x in ast.walk(r[1]):
            if isinstance(x, ast.Attribute) and isinstance(x.value, ast.Name) and x.value.id in ("self", "cls", cls_info.name) and cls_info.find_method(x.attr):
                work.append(x.attr)
    return out


def substituted_helper_bodies(fn, cls_info) -> List[ast.AST]:
    """fn's own body plus, for every ``self.h(args)`` call of a helper method of the
    class, a copy of h's body with its parameters replaced by the call's arguments."""
    import copy
    out: List[ast.AST] = [fn]
    for c in calls_in(fn):
        if isinstance(c.func, ast.Attribute) and is_self_attr(c.func) and cls_info.find_method(c.func.attr):
            h = cls_info.find_method(c.func.attr)[1]
            if h is fn:
                continue
            params = [a.arg for a in h.args.posonlyargs + h.args.args][1:]
            mapping = {}
            for p_, a in zip(params, c.args):
                mapping[p_] = a
            for k in c.keywords:
                if k.arg:
                    mapping[k.arg] = k.value
            body = copy.deepcopy(h)
            body = _ParamSubst(mapping).visit(body)
            out.append(ast.fix_missing_locations(body))
    return out


def default_handler_registrations(repo) -> Dict[str, List[str]]:
    """Request class name -> qualified names of the functions registered as its default
    handler, by any of the three spellings the runtime offers: ``@Req.handle`` on the
    function, a module-level ``Req.handle(fn)``, or ``[runtime.]handle_by_default(Req, fn)``."""
    cached = repo.__dict__.get("_default_handler_registrations")
    if cached is not None:
        return cached
    out: Dict[str, List[str]] = {}

    def add(mod, req_expr, fn_name):
        ci = repo.resolve_class(mod, req_expr) if isinstance(req_expr, (ast.Name, ast.Attribute)) else None
        q = f"{mod.name}.{fn_name}"
        if ci is not None and q in repo.functions:
            out.setdefault(ci.name, [])
            if q not in out[ci.name]:
                out[ci.name].append(q)

    for q, fi in repo.functions.items():
        for d in fi.node.decorator_list:
            if isinstance(d, ast.Attribute) and d.attr == "handle":
                add(fi.module, d.value, fi.node.name)
    for mod in repo.modules.values():
        for st in mod.tree.body:
            c = st.value if isinstance(st, ast.Expr) else (st.value if isinstance(st, ast.Assign) else None)
            if not isinstance(c, ast.Call):
                continue
            if isinstance(c.func, ast.Attribute) and c.func.attr == "handle" and len(c.args) == 1 and isinstance(c.args[0], ast.Name):
                add(mod, c.func.value, c.args[0].id)
            elif short_name(c) == "handle_by_default" and len(c.args) == 2 and isinstance(c.args[1], ast.Name):
                add(mod, c.args[0], c.args[1].id)
    # whatever else a module *executes* when it is imported (a loop over a table of (request, handler) pairs, a private
    # registration function …): the statements are run by the interpreter and the stores into the runtime's default
    # table are read off the paths
    import copy as _copy
    from .interp import Ctx, analyse_function
    from .terms import Fn, Sym
    for mod in repo.modules.values():
        if mod.name.startswith("labrea.mypy"):
            continue
        stmts = [st for st in mod.tree.body if isinstance(st, (ast.For, ast.If, ast.With, ast.While, ast.Try))
                 or (isinstance(st, ast.Expr) and isinstance(st.value, ast.Call))]
        if not stmts:
            continue
        fn = ast.parse("def __module__():\n    pass").body[0]
        fn.body = [_copy.deepcopy(st) for st in stmts]
        ast.fix_missing_locations(fn)
        try:
            paths = analyse_function(Ctx(repo), mod, fn)
        except Exception:
            continue
        for p in paths:
            if p.status != "ret":
                continue
            for e in p.events:
                if e.kind != "store" or len(e.args) < 2 or not isinstance(e.target, Fn) or not isinstance(getattr(e.target, "node", None), ast.FunctionDef):
                    continue
                tbl, idx = e.args[0], e.args[1]
                if not (isinstance(tbl, Sym) and tbl.key().startswith("global<labrea.runtime.")):
                    continue
                k = idx.args[0] if isinstance(idx, Sym) and idx.head == "index" and idx.args else None
                if not (isinstance(k, Sym) and k.head == "class" and k.text):
                    continue
                hm = e.target.owner[3] if e.target.owner and len(e.target.owner) > 3 and e.target.owner[3] is not None else mod
                q = f"{hm.name}.{e.target.node.name}"
                cname = k.text.rsplit(".", 1)[-1]
                if q in repo.functions:
                    out.setdefault(cname, [])
                    if q not in out[cname]:
                        out[cname].append(q)
    repo.__dict__["_default_handler_registrations"] = out
    return out


def typed_attr_resolver(repo, cls_info, selfnames=("self",)):
    """resolver for ``inline_helpers`` that, besides ``class_resolver``'s cases, follows
    ``self.<attr>.<method>(…)`` when the attribute's annotation names a class of the
    repository: the method body is inlined with its ``self`` replaced by ``self.<attr>``."""
    base = class_resolver(repo, cls_info, selfnames)

    def resolve(call: ast.Call):
        r = base(call)
        if r is not None:
            return r
        f = call.func
        if isinstance(f, ast.Attribute) and isinstance(f.value, ast.Attribute) and isinstance(f.value.value, ast.Name) and f.value.value.id in selfnames:
            attr = f.value.attr
            for kc in cls_info.mro():
                if attr in kc.annotations:
                    ann = kc.annotations[attr]
                    while isinstance(ann, ast.Subscript):
                        ann = ann.value
                    if isinstance(ann, ast.Constant) and isinstance(ann.value, str):
                        try:
                            ann = ast.parse(ann.value, mode="eval").body
                        except SyntaxError:
                            return None
                        while isinstance(ann, ast.Subscript):
                            ann = ann.value
                    ci = repo.resolve_class(kc.module, ann) if isinstance(ann, (ast.Name, ast.Attribute)) else None
                    if ci is None:
                        return None
                    m = ci.find_method(f.attr)
                    if m is None:
                        return None
                    decos = [ast.unparse(d) for d in m[1].decorator_list]
                    if "property" in decos or "staticmethod" in decos or "classmethod" in decos:
                        return None
                    return m[1], True, f.value
        return None
    return resolve


def effective_tests(fn: ast.AST):
    """(if-node, test expression) for every ``if`` of fn, where a test that is a bare local assigned in the
    statement just before (``c = <expr>; if c:``) — or assigned exactly once in the function — is replaced by
    that expression."""
    amap = single_assign_map(fn)
    out = []
    for node in ast.walk(fn):
        for field in ("body", "orelse", "finalbody"):
            block = getattr(node, field, None)
            if not (isinstance(block, list) and block and isinstance(block[0], ast.stmt)):
                continue
            for i, st in enumerate(block):
                if not isinstance(st, ast.If):
                    continue
                t = st.test
                if isinstance(t, ast.Name):
                    prev = block[i - 1] if i > 0 else None
                    if isinstance(prev, ast.Assign) and len(prev.targets) == 1 and isinstance(prev.targets[0], ast.Name) and prev.targets[0].id == t.id:
                        t = prev.value
                    else:
                        t = expand_locals(t, amap)
                else:
                    t = expand_locals(t, amap)
                out.append((st, t))
        if isinstance(node, ast.Try):
            for h in node.handlers:
                for i, st in enumerate(h.body):
                    if isinstance(st, ast.If):
                        t = st.test
                        prev = h.body[i - 1] if i > 0 else None
                        if isinstance(t, ast.Name) and isinstance(prev, ast.Assign) and len(prev.targets) == 1 and isinstance(prev.targets[0], ast.Name) and prev.targets[0].id == t.id:
                            t = prev.value
                        out.append((st, expand_locals(t, amap)))
    return out


def resolve_in_function(repo, m, fn, e):
    """repo.resolve_expr that also sees the imports made inside the function (``from . import logging as _l``, ``import copy``)."""
    r = repo.resolve_expr(m, e) if isinstance(e, (ast.Name, ast.Attribute)) else None
    if r is not None:
        return r
    local = {}
    for n in ast.walk(fn):
        if isinstance(n, ast.Import):
            for al in n.names:
                local[al.asname or al.name.split(".")[0]] = ("module-or-ext", al.name if al.asname else al.name.split(".")[0])
        elif isinstance(n, ast.ImportFrom):
            base = m.name.split(".")
            is_pkg = m.path.endswith("__init__.py")
            if n.level:
                up = n.level - (1 if is_pkg else 0)
                base = base[: len(base) - up] if up else base
                target = ".".join(base + ([n.module] if n.module else []))
            else:
                target = n.module or ""
            for al in n.names:
                local[al.asname or al.name] = ("from", target, al.name)
    def lookup(name):
        v = local.get(name)
        if v is None:
            return None
        if v[0] == "module-or-ext":
            return ("module", v[1]) if v[1] in repo.modules else ("external", v[1])
        _, target, attr = v
        if f"{target}.{attr}" in repo.modules:
            return ("module", f"{target}.{attr}")
        if target in repo.modules:
            return repo.resolve_name(repo.modules[target], attr)
        return ("external", f"{target}.{attr}")
    if isinstance(e, ast.Name):
        return lookup(e.id)
    if isinstance(e, ast.Attribute) and isinstance(e.value, ast.Name):
        r0 = lookup(e.value.id)
        if r0 and r0[0] == "module":
            return repo.resolve_name(repo.modules[r0[1]], e.attr)
        if r0 and r0[0] == "external":
            return ("external", f"{r0[1]}.{e.attr}")
    return None
