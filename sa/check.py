"""CLI: python -m sa.check <property> [--tier quick|thorough] [--replay file]

Exit 0: every obligation of the property discharged (KNOWN-FINDING lines allowed)
Exit 1: at least one unlisted violation (``VIOLATION property=<id> replay=<path>``)
Exit 2: ANALYSIS-ERROR (anchor vanished, unreadable idiom, internal error)
"""
from __future__ import annotations

import argparse
import json
import os
import sys
import time
import traceback

from .facts import Run
from .model import AnalysisError, Repo
from .report import (RuleResult, load_known, match_known, write_evidence,
                     write_replay)
from .registry import PROPS, RULES


def _interp_stats():
    from .interp import STATS
    return STATS


def run_property(prop: str, tier: str, replay: str = None) -> int:
    t0 = time.time()
    seed = int(os.environ.get("VERIF_SEED", "0") or 0)
    spec = PROPS[prop]
    run = Run(Repo(), tier)
    known = load_known()
    results = []
    for rid in spec["rules"]:
        fn = RULES[rid]
        if rid not in run._rule_cache:
            run._rule_cache[rid] = fn(run)
        rr: RuleResult = run._rule_cache[rid]
        floor = spec.get("floors", {}).get(rid)
        if floor is not None and len(rr.obligations) < floor:
            raise AnalysisError(
                f"{rid}: only {len(rr.obligations)} rule instances found, {floor} were confirmed by hand "
                f"on the pinned tree — the rule no longer matches the code it was written for"
            )
        if not rr.obligations:
            raise AnalysisError(f"{rid}: matched zero sites (a rule that matches nothing proves nothing)")
        flt = spec.get("filters", {}).get(rid)
        if flt:
            kept = [o for o in rr.obligations if any(s in o.construct for s in flt)]
            if not kept:
                raise AnalysisError(f"{rid}: no obligation matches the scope {flt} of {prop} (anchor vanished)")
            rr2 = RuleResult(rr.rule, kept, rr.analysed, rr.notes)
            results.append(rr2)
        else:
            results.append(rr)
    obligations = [o for rr in results for o in rr.obligations]
    only = None
    if replay:
        with open(replay) as f:
            only = json.load(f)
        obligations = [o for o in obligations if o.rule == only["rule"] and o.construct == only["construct"]]
        for o in obligations:
            print(json.dumps(o.as_sample(), indent=1))
            print("necessity:", o.necessity)
    failing = [o for o in obligations if not o.ok]
    n_viol = 0
    known_hit = []
    lines = []
    for o in failing:
        k = match_known(prop, o, known)
        if k is not None:
            known_hit.append(o)
            lines.append(f"KNOWN-FINDING: property={prop} {k.get('id', '')} {o.rule} {o.construct} — {k.get('what_fails', o.detail)}")
            continue
        n_viol += 1
        path = write_replay(prop, n_viol, o)
        lines.append(f"VIOLATION property={prop} replay={path}")
        lines.append(f"  rule={o.rule} at {o.loc()} construct={o.construct}")
        lines.append(f"  {o.detail}")
        lines.append(f"  why it matters: {o.necessity}")
    discharged = len([o for o in obligations if o.ok])
    nontrivial = len({(o.rule, o.construct) for o in obligations if not o.trivial})
    analysed = {}
    for rr in results:
        for k, v in rr.analysed.items():
            analysed[f"{rr.rule}.{k}"] = v
    samples = []
    per_rule = {}
    for o in obligations:
        per_rule.setdefault(o.rule, []).append(o)
    for rid, obs in per_rule.items():
        for o in ([x for x in obs if not x.ok] + [x for x in obs if x.ok and not x.trivial])[:3]:
            samples.append(o.as_sample())
    coverage = {
        "explanation": spec["explanation"],
        "obligations": len(obligations),
        "discharged": discharged,
        "evaluations": len(obligations),
        "distinct_nontrivial": nontrivial,
        "rule": "one obligation per rule instance (class/method/child, call site, path or table row) found in "
                "/repo's current source; non-trivial = the instance has at least one fact, site or path "
                "(a class without children is trivial); distinct by (rule, construct)",
        "samples": samples,
        "rules": {rr.rule: {"obligations": len(rr.obligations),
                            "failing": len([o for o in rr.obligations if not o.ok]),
                            "analysed": rr.analysed, "notes": rr.notes} for rr in results},
        "analysed": {
            "modules": len(run.repo.modules),
            "classes": len(run.repo.classes),
            "functions": len(run.repo.functions),
            "node_classes": len(run.repo.node_classes()),
            "interpreter_paths": _interp_stats()["paths"],
            "interpreter_entry_functions": _interp_stats()["functions"],
            "source_digest": run.repo.digest[:16],
            **analysed,
        },
        "imprecision_notes": run.imprecise,
        "known_findings_matched": [o.construct for o in known_hit],
        "undecided": spec["undecided"],
        "exhaustive": False,
    }
    wall = time.time() - t0
    if not replay:
        write_evidence(prop, tier, seed, coverage, spec["assumptions"], wall, n_viol)
    print(f"[{prop}] tier={tier} rules={','.join(spec['rules'])} obligations={len(obligations)} "
          f"discharged={discharged} known={len(known_hit)} violations={n_viol} wall={wall:.2f}s")
    for ln in lines:
        print(ln)
    return 1 if n_viol else 0


def main(argv=None) -> int:
    ap = argparse.ArgumentParser()
    ap.add_argument("prop")
    ap.add_argument("--tier", default=os.environ.get("VERIF_TIER", "quick"), choices=["quick", "thorough"])
    ap.add_argument("--replay")
    a = ap.parse_args(argv)
    if a.prop not in PROPS:
        print(f"ANALYSIS-ERROR unknown property {a.prop}")
        return 2
    try:
        rc = run_property(a.prop, a.tier, a.replay)
        if rc == 0 and a.tier == "thorough" and not a.replay:
            from .selftest import run_selftest
            rc = run_selftest(a.prop)
        return rc
    except AnalysisError as e:
        print(f"ANALYSIS-ERROR property={a.prop}: {e}")
        return 2
    except Exception:  # never exit 1 on an internal error
        print(f"ANALYSIS-ERROR property={a.prop}: internal error")
        traceback.print_exc()
        return 2


if __name__ == "__main__":
    try:
        rc = main()
        sys.stdout.flush()
    except BrokenPipeError:  # output closed by the reader (e.g. `| head`)
        rc = 0
        try:
            sys.stdout.close()
        except Exception:
            pass
    os._exit(rc)
