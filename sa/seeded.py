"""Run the static checks against the seeded changes kept under /verif/seeded/.

    python -m sa.seeded                 # every seeded change, its own property
    python -m sa.seeded --all-props     # also list every other property that fires
    python -m sa.seeded <dir> …         # selected seeded directories

Each seeded change is applied (patch -p1) to a scratch copy of /repo's current
labrea package outside /repo and /verif, the rules of its property are run
in-process, and the copy is removed.  Nothing is ever applied to /repo here.
"""
from __future__ import annotations

import json
import os
import shutil
import subprocess
import sys
import tempfile
from concurrent.futures import ProcessPoolExecutor
from typing import Dict, List

from .model import REPO
from .report import VERIF

SEEDED = os.path.join(VERIF, "seeded")


def list_seeded() -> List[str]:
    if not os.path.isdir(SEEDED):
        return []
    return sorted(d for d in os.listdir(SEEDED) if os.path.exists(os.path.join(SEEDED, d, "patch.diff")))


def run_seed(args) -> dict:
    name, all_props = args
    d = os.path.join(SEEDED, name)
    meta = json.load(open(os.path.join(d, "meta.json")))
    tmp = tempfile.mkdtemp(prefix="sa-seed-", dir=os.environ.get("TMPDIR", "/tmp"))
    try:
        shutil.copytree(os.path.join(REPO, "labrea"), os.path.join(tmp, "labrea"), ignore=shutil.ignore_patterns("__pycache__"))
        r = subprocess.run(["patch", "-p1", "-s", "-i", os.path.join(d, "patch.diff")], cwd=tmp, capture_output=True, text=True)
        if r.returncode != 0:
            return {"name": name, "status": "patch-failed", "why": (r.stdout + r.stderr)[-300:], "meta": meta}
        from .facts import Run
        from .model import AnalysisError, Repo
        from .registry import PROPS, RULES
        from .report import load_known, match_known
        run = Run(Repo(tmp), "quick")
        known = load_known()
        props = sorted(PROPS) if all_props else [meta["property"]]
        fired: Dict[str, List[str]] = {}
        errors: List[str] = []
        for prop in props:
            spec = PROPS[prop]
            for rid in spec["rules"]:
                try:
                    if rid not in run._rule_cache:
                        run._rule_cache[rid] = RULES[rid](run)
                    rr = run._rule_cache[rid]
                except AnalysisError as e:
                    errors.append(f"{prop}/{rid}: {e}")
                    run._rule_cache[rid] = None
                    continue
                if rr is None:
                    continue
                flt = spec.get("filters", {}).get(rid)
                for o in rr.obligations:
                    if o.ok or (flt and not any(s in o.construct for s in flt)):
                        continue
                    if match_known(prop, o, known) is not None:
                        continue
                    fired.setdefault(prop, []).append(f"{o.rule} {o.construct} @ {o.loc()} — {o.detail[:120]}")
        return {"name": name, "status": "ran", "fired": fired, "errors": errors, "meta": meta}
    finally:
        shutil.rmtree(tmp, ignore_errors=True)


def write_readme(results) -> None:
    lines = ["# Seeded changes and the checks that report them", "",
             "Each directory holds one change to 8451/labrea that breaks the named property while the pinned test suite",
             "still passes (`patch.diff`), a demonstration that fails with the change and passes without it (`demo.py`) and",
             "`meta.json` (what it needs to manifest, how it was confirmed). All were written by independent sub-agents that saw",
             "only the property text. Regenerate this table with `python -m sa.seeded --all-props --write-readme`; it is produced by",
             "applying each patch to a scratch copy of /repo's current `labrea/` and running the static rules on it.", "",
             "| seeded change | property | what it does | reported by (check of its own property) | other checks that also fire |",
             "|---|---|---|---|---|"]
    for r in results:
        prop = r["meta"].get("property")
        if r["status"] != "ran":
            lines.append(f"| {r['name']} | {prop} | {r['meta'].get('summary', '')[:160]} | ({r['status']}) | |")
            continue
        own = r["fired"].get(prop, [])
        rules = sorted({x.split()[0] for x in own})
        first = own[0].split(" @ ")[0] if own else "**missed**"
        others = ", ".join(sorted(p for p in r["fired"] if p != prop))
        summ = r["meta"].get("summary", "").replace("|", "/").replace("\n", " ")[:200]
        lines.append(f"| {r['name']} | {prop} | {summ} | {', '.join(rules)}: `{first[:110]}` | {others} |")
    caught = sum(1 for r in results if r["status"] == "ran" and r["fired"].get(r["meta"].get("property")))
    lines += ["", f"{caught}/{len(results)} seeded changes are reported by the check of their own property."]
    open(os.path.join(SEEDED, "README.md"), "w").write("\n".join(lines) + "\n")


def run_refactor(name_dir) -> dict:
    """A behaviour-preserving refactoring: no property may fire, no analysis error."""
    name, base = name_dir[0], name_dir[1]
    only_props = name_dir[2] if len(name_dir) > 2 else None
    d = os.path.join(base, name)
    tmp = tempfile.mkdtemp(prefix="sa-refac-", dir=os.environ.get("TMPDIR", "/tmp"))
    try:
        shutil.copytree(os.path.join(REPO, "labrea"), os.path.join(tmp, "labrea"), ignore=shutil.ignore_patterns("__pycache__"))
        r = subprocess.run(["patch", "-p1", "-s", "-i", os.path.join(d, "patch.diff")], cwd=tmp, capture_output=True, text=True)
        if r.returncode != 0:
            return {"name": name, "status": "patch-failed", "why": (r.stdout + r.stderr)[-300:]}
        from .facts import Run
        from .model import AnalysisError, Repo
        from .registry import PROPS, RULES
        from .report import load_known, match_known
        run = Run(Repo(tmp), "quick")
        known = load_known()
        fired: Dict[str, List[str]] = {}
        errors: List[str] = []
        for prop in (only_props or sorted(PROPS)):
            spec = PROPS[prop]
            for rid in spec["rules"]:
                try:
                    if rid not in run._rule_cache:
                        run._rule_cache[rid] = RULES[rid](run)
                    rr = run._rule_cache[rid]
                except AnalysisError as e:
                    errors.append(f"{rid}: {e}")
                    run._rule_cache[rid] = None
                    continue
                except Exception as e:
                    errors.append(f"{rid}: internal {e!r}")
                    run._rule_cache[rid] = None
                    continue
                if rr is None:
                    continue
                flt = spec.get("filters", {}).get(rid)
                for o in rr.obligations:
                    if o.ok or (flt and not any(s in o.construct for s in flt)):
                        continue
                    if match_known(prop, o, known) is not None:
                        continue
                    fired.setdefault(o.rule + " " + o.construct, []).append(prop)
        # a feature pull request may replace a mechanism a rule is written for: such reports are triaged by hand and listed, rule by
        # rule with the reason, in <dir>/expected.json — they are shown, but only reports that are NOT listed count as false alarms
        expected = {}
        ef = os.path.join(d, "expected.json")
        if os.path.exists(ef):
            expected = json.load(open(ef)).get("rules", {})
        triaged = {k: v for k, v in fired.items() if k.split(" ")[0] in expected}
        fired = {k: v for k, v in fired.items() if k.split(" ")[0] not in expected}
        # (a rule that gives up on the replaced mechanism — "anchor vanished" — is the same report in another form)
        for e_ in list(errors):
            if e_.split(":")[0] in expected:
                triaged["%s ANALYSIS-ERROR %s" % (e_.split(":")[0], e_[:120])] = []
                errors.remove(e_)
        stale = sorted(r_ for r_ in expected if not any(k.split(" ")[0] == r_ for k in triaged))
        return {"name": name, "status": "ran", "fired": fired, "errors": sorted(set(errors)), "triaged": triaged, "expected": expected, "stale": stale}
    finally:
        shutil.rmtree(tmp, ignore_errors=True)


def main_refactors(base: str, names: List[str]) -> int:
    names = names or sorted(d for d in os.listdir(base) if os.path.exists(os.path.join(base, d, "patch.diff")))
    with ProcessPoolExecutor(max_workers=16) as ex:
        results = list(ex.map(run_refactor, [(n, base) for n in names]))
    bad = n_tri = 0
    for r in results:
        if r["status"] != "ran":
            print(f"{r['name']:24} {r['status']} {r.get('why', '')[:150]}")
            continue
        if r["fired"] or r["errors"]:
            bad += 1
            print(f"{r['name']:24} FALSE ALARM")
            for k, ps in r["fired"].items():
                print(f"      {k[:170]}  [{','.join(sorted(set(ps)))}]")
            for e in r["errors"]:
                print(f"      ANALYSIS-ERROR {e[:200]}")
        elif r.get("triaged"):
            n_tri += 1
            print(f"{r['name']:24} reports triaged as expected: " + "; ".join(f"{rid} ({len([k for k in r['triaged'] if k.split(' ')[0] == rid])})" for rid in sorted(r["expected"]) if rid not in r["stale"]))
        else:
            print(f"{r['name']:24} silent")
        for rid in r.get("stale", []):
            print(f"      note: expected.json lists {rid}, which no longer reports anything here")
    print(f"{len(results) - bad}/{len(results)} behaviour-preserving refactorings leave every check silent"
          + (f" ({n_tri} of them only after triage: their reports are listed with reasons in expected.json)" if n_tri else ""))
    return 0


def main(argv: List[str]) -> int:
    if "--refactors" in argv:
        i = argv.index("--refactors")
        base = argv[i + 1]
        return main_refactors(base, [a for a in argv[i + 2:] if not a.startswith("--")])
    all_props = "--all-props" in argv
    names = [a for a in argv if not a.startswith("--")] or list_seeded()
    with ProcessPoolExecutor(max_workers=16) as ex:
        results = list(ex.map(run_seed, [(n, all_props) for n in names]))
    caught = 0
    for r in results:
        prop = r["meta"].get("property")
        if r["status"] != "ran":
            print(f"{r['name']:28} {prop} {r['status']}: {r.get('why', '')[:200]}")
            continue
        own = r["fired"].get(prop, [])
        others = sorted(p for p in r["fired"] if p != prop)
        state = "CAUGHT" if own else ("analysis-error" if r["errors"] else "missed")
        caught += bool(own)
        print(f"{r['name']:28} {prop} {state:7} {own[0][:170] if own else ''}" + (f"  [also: {','.join(others)}]" if others else "")
              + (f"  [errors: {r['errors'][0][:100]}]" if r["errors"] else ""))
    print(f"{caught}/{len(results)} seeded changes reported by the check of their own property")
    if "--write-readme" in argv:
        write_readme(results)
    return 0


if __name__ == "__main__":
    sys.exit(main(sys.argv[1:]))
