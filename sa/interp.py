"""Path-sensitive op-propagation interpreter (DESIGN.md 2.2 / 2.3).

Executes labrea method bodies over *node terms* and yields, per execution
path, the ordered list of events (ops applied to children, calls, raises,
returns) plus the path condition.  Nothing is executed concretely.
"""
from __future__ import annotations

import ast
import os
from typing import Dict, List, Optional, Tuple

from .model import AnalysisError, ClassInfo, Module, Repo
from .terms import (Bound, Child, Const, Fn, New, Opaque, Seq, Sym, Term, Val,
                    is_node)

OPS = ("evaluate", "validate", "keys", "explain")
XOPS = OPS + ("transform",)
SELF = Child("<self>")


class Coll(Term):
    """Homogeneous collection with abstract element term."""

    def __init__(self, elem: Term, keyterm: Optional[Term] = None):
        self.elem = elem
        self.keyterm = keyterm

    def _key(self):
        return f"Coll({self.elem.key()})"


class Event:
    __slots__ = ("kind", "op", "target", "opts", "line", "file", "failed",
                 "guards", "depth", "via", "args", "text", "in_comp", "env", "ncond", "whole", "held", "sofar")

    def __init__(self, kind, op=None, target=None, opts=None, line=0, file="",
                 guards=(), depth=0, via=(), args=(), text="", in_comp=False):
        self.kind = kind
        self.op = op
        self.target = target
        self.opts = opts
        self.line = line
        self.file = file
        self.failed = False
        self.guards = tuple(guards)
        self.depth = depth
        self.via = tuple(via)
        self.args = tuple(args)
        self.text = text
        self.in_comp = in_comp
        self.env = None
        self.ncond = 0
        self.whole = False
        self.held = ()
        self.sofar = False      # inside an iteration over exactly the elements consulted so far (a prefix ending at the current one)

    def copy(self):
        e = Event(self.kind, self.op, self.target, self.opts, self.line,
                  self.file, self.guards, self.depth, self.via, self.args,
                  self.text, self.in_comp)
        e.failed = self.failed
        e.env = self.env
        e.ncond = self.ncond
        e.whole = self.whole
        e.held = self.held
        e.sofar = self.sofar
        return e

    def key(self):
        t = self.target.key() if isinstance(self.target, Term) else str(self.target)
        o = self.opts.key() if isinstance(self.opts, Term) else str(self.opts)
        return (self.kind, self.op, t, o, self.failed, self.text if self.kind != "op" else "", self.line)

    def short(self):
        if self.kind == "op":
            t = self.target.path if isinstance(self.target, Child) else self.target.key()
            return ("failed " if self.failed else "") + f"{self.op} {t}"
        if self.kind == "call":
            return ("failed " if self.failed else "") + f"call {self.text}"
        return f"{self.kind} {self.text}"

    def __repr__(self):
        return self.short()


class Path:
    def __init__(self, env=None, events=None, conds=None):
        self.env: Dict[str, Term] = dict(env or {})
        self.events: List[Event] = list(events or [])
        self.conds: List[Tuple[str, bool, str]] = list(conds or [])
        self.status = "live"  # live | ret | raise | break | continue
        self.ret: Optional[Term] = None
        self.exc: Optional[Tuple[str, str, int]] = None  # (type text, cause, line)
        self.src: Dict[str, tuple] = {}   # local name -> (source text, expression, versions of the names it reads)
        self.ver: Dict[str, int] = {}     # local name -> number of assignments so far
        self.heap: Dict[str, Term] = {}   # "<object key>.<attr>" -> value, for attributes of plain objects built on this path
        self.locks: Tuple[str, ...] = ()  # keys of the locks taken by .acquire() and not yet released
        self.tested: Dict[Tuple[str, int], bool] = {}   # (local name, its version) -> how a test of that local came out on this path

    def derive(self, env, events, conds) -> "Path":
        """A path of another activation (callee, handler, caller continuation) on the same execution."""
        p = Path(env, events, conds)
        p.heap = dict(self.heap)
        p.locks = self.locks
        return p

    def fork(self) -> "Path":
        p = Path(self.env, self.events, self.conds)
        p.src = dict(self.src)
        p.ver = dict(self.ver)
        p.heap = dict(self.heap)
        p.locks = self.locks
        p.tested = dict(self.tested)
        p.status = self.status
        p.ret = self.ret
        p.exc = self.exc
        return p

    def sig(self):
        return (self.status, self.ret.key() if self.ret is not None else None,
                self.exc[:2] if self.exc else None,
                tuple(e.key() for e in self.events), tuple(self.conds))

    def ops(self, include_failed=False):
        return [e for e in self.events if e.kind == "op" and (include_failed or not e.failed)]


def dedupe(paths: List[Path]) -> List[Path]:
    seen = set()
    out = []
    for p in paths:
        s = p.sig()
        if s in seen:
            continue
        seen.add(s)
        out.append(p)
    return out


class Ctx:
    """Shared state of one analysis run."""

    def __init__(self, repo: Repo, max_depth=14, unroll=1, max_paths=4000):
        self.repo = repo
        self.max_depth = max_depth
        self.unroll = unroll
        self.max_paths = max_paths
        self.imprecise: List[str] = []
        self.unfolding: List[Tuple[str, str]] = []  # (class qualname, op)
        self.inlined = 0
        self.no_inline: set = set()
        self.whole = 0  # >0 while inside an iteration that visits every element
        self.steps = 0
        self.max_steps = 400000
        self.t0 = None              # wall-clock start of the analysis run with this context (set on the first statement)
        self.max_seconds = float(os.environ.get("SA_MAX_SECONDS_PER_ANALYSIS", "45"))
        self.attr_kind_cache: Dict[Tuple[str, str], str] = {}
        self.init_cache: Dict[str, object] = {}

    def note(self, msg: str):
        if msg not in self.imprecise:
            self.imprecise.append(msg)


# exception hierarchy known to the analysis (name -> parents), completed from
# the class table at run time
BUILTIN_EXC = {
    "BaseException": [],
    "Exception": ["BaseException"],
    "KeyError": ["LookupError"],
    "IndexError": ["LookupError"],
    "LookupError": ["Exception"],
    "TypeError": ["Exception"],
    "ValueError": ["Exception"],
    "AttributeError": ["Exception"],
    "AssertionError": ["Exception"],
    "NotImplementedError": ["RuntimeError"],
    "RuntimeError": ["Exception"],
}


def exc_is_subclass(repo: Repo, name: str, of: str) -> Optional[bool]:
    """Is exception class ``name`` a subclass of ``of``?  None = unknown."""
    name = name.split("(")[0].strip()
    name = name.split(".")[-1]
    of = of.split(".")[-1]
    if name == of:
        return True
    seen = set()
    work = [name]
    known = False
    while work:
        n = work.pop()
        if n in seen:
            continue
        seen.add(n)
        if n == of:
            return True
        if n in BUILTIN_EXC:
            known = True
            work.extend(BUILTIN_EXC[n])
            continue
        hits = [c for c in repo.classes.values() if c.name == n]
        if hits:
            known = True
            c = hits[0]
            for b in c.base_exprs:
                work.append(ast.unparse(b.value if isinstance(b, ast.Subscript) else b).split(".")[-1])
    return False if known else None


class Frame:
    """One function activation."""

    def __init__(self, ctx: Ctx, module: Module, cls: Optional[ClassInfo],
                 selfterm: Optional[Term], selfattrs: Optional[Dict[str, Term]],
                 depth: int, via: Tuple[str, ...], fname: str):
        self.ctx = ctx
        self.repo = ctx.repo
        self.module = module
        self.cls = cls
        self.selfterm = selfterm
        self.selfattrs = selfattrs
        self.depth = depth
        self.via = via
        self.fname = fname
        self.guards: List[str] = []
        self.held: List[str] = []      # keys of the context managers of the enclosing ``with`` blocks
        self.in_comp = 0

    # ------------------------------------------------------------ utilities
    def ev(self, p: Path, kind, **kw) -> Event:
        e = Event(kind, guards=tuple(self.guards), depth=self.depth, via=self.via,
                  file=self.module.relpath, in_comp=bool(self.in_comp), **kw)
        e.env = dict(p.env) if self.guards else None
        e.ncond = len(p.conds)
        e.whole = self.ctx.whole > 0
        e.sofar = getattr(self.ctx, "sofar", 0) > 0
        e.held = tuple(self.held) + p.locks
        p.events.append(e)
        return e

    def attr_kind(self, cls: ClassInfo, attr: str) -> str:
        """node | nodes (container) | callable | other, from annotations."""
        k = (cls.qualname, attr)
        c = self.ctx.attr_kind_cache
        if k in c:
            return c[k]
        kind = "other"
        for kc in cls.mro():
            if attr in kc.annotations:
                kind = annotation_kind(self.repo, kc.module, kc.annotations[attr])
                break
        c[k] = kind
        return kind

    # ------------------------------------------------------------- running
    def _check_time(self) -> None:
        import time as _time
        if self.ctx.t0 is None:
            self.ctx.t0 = _time.time()
        elif _time.time() - self.ctx.t0 > self.ctx.max_seconds:
            raise AnalysisError(f"interpreter time budget ({self.ctx.max_seconds:.0f} s) exhausted in {self.fname} (path explosion)")

    def run_function(self, fn: ast.FunctionDef, bound: Dict[str, Term], p: Path) -> List[Path]:
        """Execute ``fn`` with parameters bound; returns caller-visible paths
        (status ret|raise|live->ret None)."""
        self._check_time()      # (also here: with very many long paths the time goes into comparing them, not into statements)
        callee = p.derive(bound, p.events, p.conds)
        is_gen = any(isinstance(x, (ast.Yield, ast.YieldFrom)) for x in _walk_own(fn))
        straight = is_gen and not any(isinstance(y, (ast.Yield, ast.YieldFrom)) for x in _walk_own(fn)
                                      if isinstance(x, (ast.For, ast.AsyncFor, ast.While)) for y in ast.walk(x))
        if is_gen:
            # a generator function that is one loop around one ``yield`` — ``for x in xs: yield f(x)`` (possibly under one ``if``) — is
            # the generator expression ``(f(x) for x in xs)`` with a name: evaluated as that (over the whole collection, like the
            # comprehension the caller could have written in place)
            body_ = [st for st in fn.body if not (isinstance(st, ast.Expr) and isinstance(st.value, ast.Constant))]
            if len(body_) == 1 and isinstance(body_[0], ast.For) and not body_[0].orelse and len(body_[0].body) == 1:
                inner, ifs = body_[0].body[0], []
                if isinstance(inner, ast.If) and not inner.orelse and len(inner.body) == 1:
                    ifs, inner = [inner.test], inner.body[0]
                if isinstance(inner, ast.Expr) and isinstance(inner.value, ast.Yield) and inner.value.value is not None \
                        and not any(isinstance(y, (ast.Yield, ast.YieldFrom)) for y in ast.walk(inner.value.value)):
                    gen = ast.GeneratorExp(elt=inner.value.value, generators=[ast.comprehension(target=body_[0].target, iter=body_[0].iter, ifs=ifs, is_async=0)])
                    ast.copy_location(gen, body_[0])
                    ast.fix_missing_locations(gen)
                    out_g = []
                    for q, t in self.expr(gen, callee):
                        if q.status == "live":
                            q.status = "ret"
                            q.ret = t
                        out_g.append(q)
                    return dedupe(out_g)
        paths = self.block(fn.body, [callee])
        out = []
        for q in paths:
            if q.status in ("live", "break", "continue"):
                q.status = "ret"
                q.ret = Const(None)
            if is_gen and q.status == "ret":
                ys = q.env.get("<yields>")
                items = list(getattr(ys, "items", []))
                flat: List[Term] = []
                for it in items:
                    if isinstance(it, Sym) and it.head == "star":
                        flat.extend(iter_elems(it.args[0]))
                    else:
                        flat.append(it)
                uniq: List[Term] = []
                for it in flat:
                    if it not in uniq:
                        uniq.append(it)
                if items and straight:
                    q.ret = Seq(items)          # yields outside any loop: exactly these items, in this order
                elif uniq:
                    q.ret = Coll(uniq[0] if len(uniq) == 1 else Sym("oneof", tuple(uniq)))
                    q.ret.nonempty = True       # something was yielded on this path
                else:
                    q.ret = Seq([])             # nothing was yielded on this path: an empty iterable
            out.append(q)
        self._check_time()
        return dedupe(out)

    def block(self, stmts, paths: List[Path]) -> List[Path]:
        for st in stmts:
            live = [p for p in paths if p.status == "live"]
            if not live:
                return paths
            done = [p for p in paths if p.status != "live"]
            nxt = []
            for p in live:
                nxt.extend(self.stmt(st, p))
            paths = done + nxt
            if len(paths) > self.ctx.max_paths:
                self.ctx.note(f"path cap hit in {self.fname}")
                paths = dedupe(paths)[: self.ctx.max_paths]
        return paths

    # ---------------------------------------------------------- statements
    def stmt(self, st: ast.stmt, p: Path) -> List[Path]:
        self.ctx.steps += 1
        if self.ctx.steps > self.ctx.max_steps:
            raise AnalysisError(f"interpreter step budget exhausted in {self.fname} (path explosion)")
        if self.ctx.steps & 255 == 1:
            # a wall-clock bound as well: long paths make single steps slow, and a check that never ends is worse than one that gives up
            import time as _time
            if self.ctx.t0 is None:
                self.ctx.t0 = _time.time()
            elif _time.time() - self.ctx.t0 > self.ctx.max_seconds:
                raise AnalysisError(f"interpreter time budget ({self.ctx.max_seconds:.0f} s) exhausted in {self.fname} (path explosion)")
        if isinstance(st, ast.Return):
            out = []
            for q, t in self.expr(st.value, p) if st.value is not None else [(p, Const(None))]:
                if q.status == "live":
                    q.status = "ret"
                    q.ret = t
                    self.ev(q, "return", text=ast.unparse(st.value) if st.value else "None",
                            line=st.lineno, target=t)
                out.append(q)
            return out
        if isinstance(st, ast.Raise):
            return self.do_raise(st, p)
        if isinstance(st, (ast.Assign, ast.AnnAssign, ast.AugAssign)):
            if isinstance(st, ast.AnnAssign) and st.value is None:
                return [p]
            out = []
            for q, t in self.expr(st.value, p):
                if q.status == "live":
                    targets = st.targets if isinstance(st, ast.Assign) else [st.target]
                    if isinstance(st, ast.AugAssign) and isinstance(st.target, ast.Name) and st.target.id in q.env:
                        t = self.augmented(st, q.env[st.target.id], t, q)
                    for tg in targets:
                        self.assign(tg, t, q, st)
                out.append(q)
            return out
        if isinstance(st, ast.Expr):
            return [q for q, _ in self.expr(st.value, p)]
        if isinstance(st, ast.If):
            # ``if not x: x = {}`` / ``if x is None: x = {}`` is ``x = x or {}`` written as a statement: the default for an argument
            # that was not given (the mapping the caller handed in, or an empty one)
            if not st.orelse and len(st.body) == 1 and isinstance(st.body[0], ast.Assign) and len(st.body[0].targets) == 1 and isinstance(st.body[0].targets[0], ast.Name):
                nm_, v_ = st.body[0].targets[0].id, st.body[0].value
                empty_ = (isinstance(v_, (ast.Dict, ast.List)) and not (v_.keys if isinstance(v_, ast.Dict) else v_.elts)) or (
                    isinstance(v_, ast.Call) and isinstance(v_.func, ast.Name) and v_.func.id in ("dict", "list") and not v_.args and not v_.keywords)
                t_ = st.test
                asks_ = (isinstance(t_, ast.UnaryOp) and isinstance(t_.op, ast.Not) and isinstance(t_.operand, ast.Name) and t_.operand.id == nm_) or (
                    isinstance(t_, ast.Compare) and len(t_.ops) == 1 and isinstance(t_.ops[0], ast.Is) and isinstance(t_.left, ast.Name) and t_.left.id == nm_
                    and isinstance(t_.comparators[0], ast.Constant) and t_.comparators[0].value is None)
                if empty_ and asks_ and nm_ in p.env:
                    alt = ast.Assign(targets=[ast.Name(id=nm_, ctx=ast.Store())],
                                     value=ast.BoolOp(op=ast.Or(), values=[ast.Name(id=nm_, ctx=ast.Load()), v_]), lineno=st.lineno)
                    ast.copy_location(alt, st)
                    ast.fix_missing_locations(alt)
                    return self.stmt(alt, p)
            return self.do_if(st, p)
        if isinstance(st, (ast.For, ast.AsyncFor)):
            return self.do_for(st, p)
        if isinstance(st, ast.While):
            # a test that the path decides (``while True`` / ``while pending`` on a list whose contents are known /
            # a fact established earlier) is followed for as many iterations as it stays decided; an undecided
            # test gives the two abstract outcomes "not entered" and "body ran once"
            out = []
            cur = [p]
            for _round in range(12):
                nxt = []
                for q in cur:
                    outcomes = self.branch(st.test, q)
                    decided = len([1 for _, v in outcomes if v is not None]) == 1
                    for q2, v in outcomes:
                        if v is None or q2.status != "live":
                            out.append(q2)
                        elif v is False:
                            out.extend(self.block(st.orelse, [q2]) if st.orelse else [q2])
                        else:
                            for b in self.block(st.body, [q2]):
                                if b.status == "break":
                                    b.status = "live"
                                    out.append(b)
                                elif b.status in ("live", "continue"):
                                    b.status = "live"
                                    (nxt if decided else out).append(b)
                                else:
                                    out.append(b)
                cur = nxt
                if not cur:
                    break
            if cur:
                self.ctx.note(f"while loop in {self.fname} not exhausted after 12 decided iterations")
                out.extend(cur)
            return out
        if isinstance(st, ast.Try):
            return self.do_try(st, p)
        if hasattr(ast, "Match") and isinstance(st, ast.Match):
            return self.do_match(st, p)
        if isinstance(st, ast.With) and len(st.items) == 1 and isinstance(st.items[0].context_expr, ast.Call):
            r_ = self.splice_contextmanager(st, p)
            if r_ is not None:
                return r_
        if isinstance(st, (ast.With, ast.AsyncWith)):
            cur = [p]
            keys = []
            managers = []
            for item in st.items:
                nxt = []
                k_ = None
                for q in cur:
                    for q2, t in self.expr(item.context_expr, q):
                        pc = self.plain_class(t, context_manager=True) if q2.status == "live" else None
                        ent = pc.find_method("__enter__") if pc is not None else None
                        ext = pc.find_method("__exit__") if pc is not None else None
                        if ent is not None and ext is not None:
                            # a context manager class of the repository: run its __enter__ here and its __exit__ on every way out
                            managers.append((t, ext))
                            first = [a.arg for a in ent[1].args.posonlyargs + ent[1].args.args][:1]
                            for q3, t3 in self.inline(ent[0].module, None, ent[1], None, None, {first[0]: t} if first else {}, q2, st):
                                if item.optional_vars is not None and q3.status == "live":
                                    self.assign(item.optional_vars, t3, q3, st)
                                nxt.append(q3)
                            k_ = k_ or "enter:" + t.key()
                            continue
                        if item.optional_vars is not None and q2.status == "live":
                            self.assign(item.optional_vars, t, q2, st)
                        if k_ is None and t is not None:
                            k_ = t.key()
                        nxt.append(q2)
                cur = nxt
                keys.append(k_ or "expr:" + ast.unparse(item.context_expr)[:60])
            self.held.extend(keys)
            body_stmts = st.body
            for mi, (t, (xo, xfn)) in enumerate(managers):
                wrapped = self._exit_as_handlers(st, body_stmts, t, xfn, cur, mi)
                if wrapped is not None:
                    body_stmts = wrapped
            try:
                outs = self.block(body_stmts, cur)
            finally:
                del self.held[len(self.held) - len(keys):]
            for t, (xo, xfn) in reversed(managers):
                nxt = []
                for q in outs:
                    saved = (q.status, q.ret, q.exc)
                    q.status = "live"
                    names = [a.arg for a in xfn.args.posonlyargs + xfn.args.args]
                    bound = {n_: Const(None) for n_ in names[1:]}
                    if names:
                        bound[names[0]] = t
                    for q2, _ in self.inline(xo.module, None, xfn, None, None, bound, q, st):
                        if q2.status == "live":
                            q2.status, q2.ret, q2.exc = saved
                        nxt.append(q2)
                outs = nxt
            return outs
        if isinstance(st, ast.Break):
            p.status = "break"
            return [p]
        if isinstance(st, ast.Continue):
            p.status = "continue"
            return [p]
        if isinstance(st, ast.ImportFrom):
            # function-level import (used to break import cycles): bind the names
            base = self.module.name.split(".")
            is_pkg = self.module.path.endswith("__init__.py")
            if st.level:
                up = st.level - (1 if is_pkg else 0)
                base = base[: len(base) - up] if up else base
                target = ".".join(base + ([st.module] if st.module else []))
            else:
                target = st.module or ""
            tm = self.repo.modules.get(target)
            if tm is None and not st.level and st.module:
                for a in st.names:
                    p.env[a.asname or a.name] = Sym("ext", text=f"{st.module}.{a.name}")
            if tm is not None:
                for a in st.names:
                    r = self.repo.resolve_name(tm, a.name)
                    local = a.asname or a.name
                    if r and r[0] == "class":
                        p.env[local] = Sym("class", text=r[1].qualname)
                    elif r and r[0] == "func":
                        p.env[local] = Fn("func", (None, None, None, r[1].module), r[1].node)
                    elif r and r[0] == "var":
                        p.env[local] = self.global_term(r[2], a.name, r[1])
            return [p]
        if isinstance(st, ast.Import):
            # function-level ``import x`` / ``import x.y as z``: the local name denotes that module
            for a in st.names:
                local = a.asname or a.name.split(".")[0]
                full = a.name if a.asname else a.name.split(".")[0]
                p.env[local] = Sym("module", text=full) if full in self.repo.modules else Sym("ext", text=full)
            return [p]
        if isinstance(st, (ast.Pass, ast.Global, ast.Nonlocal)):
            return [p]
        if isinstance(st, (ast.FunctionDef, ast.AsyncFunctionDef)):
            fterm = Fn("func", (self.cls, self.selfterm, self.selfattrs, self.module), st, frame=dict(p.env))
            p.env[st.name] = fterm
            # decorators of the library's own that hand the function back after marking / registering it (``@_wrapper``, a local
            # ``@install``): applied, innermost first; what they return is bound to the name
            decos = [d for d in reversed(st.decorator_list)]
            if decos and all(self._own_plain_decorator(d, p) for d in decos):
                cur = [(p, fterm)]
                for d in decos:
                    nxt = []
                    for q, ft in cur:
                        for q2, dt in self.expr(d, q):
                            if q2.status != "live" or not isinstance(dt, Fn):
                                nxt.append((q2, ft))
                                continue
                            node_ = ast.Call(func=d, args=[ast.Name(id=st.name, ctx=ast.Load())], keywords=[])
                            ast.copy_location(node_, st)
                            ast.fix_missing_locations(node_)
                            for q3, rt in self.call_fn(dt, [ft], {}, q2, node_):
                                nxt.append((q3, rt if isinstance(rt, Fn) else ft))
                    cur = nxt
                out_ = []
                for q, ft in cur:
                    if q.status == "live":
                        q.env[st.name] = ft
                    out_.append(q)
                return out_
            return [p]
        if isinstance(st, ast.ClassDef):
            p.env[st.name] = Opaque(f"class {st.name}")
            return [p]
        if isinstance(st, ast.Assert):
            out = []
            for q, tt in self.expr(st.test, p):
                if q.status != "live":
                    out.append(q)
                    continue
                txt = ast.unparse(st.test)
                ok_ = q.fork()
                ok_.conds.append((txt, True, tt.key()))
                out.append(ok_)
                bad_ = q.fork()
                bad_.conds.append((txt, False, tt.key()))
                msgs = self.expr(st.msg, bad_) if st.msg is not None else [(bad_, Const(None))]
                for q2, mt in msgs:
                    if q2.status == "live":
                        q2.status = "raise"
                        q2.exc = ("AssertionError", "none", st.lineno)
                        self.ev(q2, "raise", text="AssertionError", line=st.lineno, target=Sym("new:AssertionError", (mt,)), args=(Sym("none"),))
                    out.append(q2)
            return out
        if isinstance(st, ast.Delete):
            for tg in st.targets:
                if isinstance(tg, ast.Subscript) and isinstance(tg.value, (ast.Name, ast.Attribute)):
                    r1 = self.expr(tg.value, p.fork())
                    r2 = self.expr(tg.slice, p.fork()) if not isinstance(tg.slice, ast.Slice) else []
                    if len(r1) == 1 and len(r2) == 1:
                        self.ev(p, "delete", text=ast.unparse(tg), args=(r1[0][1], r2[0][1]), line=st.lineno, op=self.fname)
                elif isinstance(tg, ast.Attribute) and isinstance(tg.value, ast.Name):
                    bt = p.env.get(tg.value.id)
                    self.ev(p, "delete", text=ast.unparse(tg), args=(bt if bt is not None else Opaque("obj"), Const(tg.attr)), line=st.lineno, op=self.fname)
            return [p]
        self.ctx.note(f"unsupported statement {type(st).__name__} in {self.fname}")
        return [p]

    def splice_contextmanager(self, st: ast.With, p: Path) -> Optional[List[Path]]:
        """``with _cm(args): BODY`` where ``_cm`` is a generator of this module decorated with
        ``contextlib.contextmanager`` and yields exactly once: by the definition of that decorator the block runs
        where the ``yield`` stands — inside whatever ``try`` surrounds it.  The generator's body is executed here
        with its own names renamed apart and the ``yield`` replaced by BODY."""
        import copy
        call = st.items[0].context_expr
        f = call.func
        fn = None
        selfbind = None
        if isinstance(f, ast.Name) and f.id not in p.env:
            r = self.repo.resolve_name(self.module, f.id)
            if r and r[0] == "func" and r[1].module is self.module:
                fn = r[1].node
        elif isinstance(f, ast.Attribute) and isinstance(f.value, ast.Name) and self.cls is not None and p.env.get(f.value.id) is self.selfterm and self.selfterm is not None:
            r = self.cls.find_method(f.attr)
            if r is not None and r[0].module is self.module:
                fn = r[1]
                selfbind = f.value.id
        if fn is None or not any(ast.unparse(d).split(".")[-1] == "contextmanager" for d in fn.decorator_list):
            return None
        yields = [x for x in _walk_own(fn) if isinstance(x, (ast.Yield, ast.YieldFrom))]
        ystmts = [x for x in _walk_own(fn) if isinstance(x, ast.Expr) and isinstance(x.value, ast.Yield)]
        if len(yields) != 1 or len(ystmts) != 1 or any(isinstance(k, ast.Starred) for k in call.args) or any(k.arg is None for k in call.keywords):
            return None
        n_ = self.ctx.__dict__.setdefault("synth_n", 0)
        self.ctx.synth_n = n_ + 1
        sfx = f"$cm{n_}"
        a = fn.args
        params = [x.arg for x in a.posonlyargs + a.args + a.kwonlyargs]
        local = set(params)
        for x in _walk_own(fn):
            if isinstance(x, ast.Name) and isinstance(x.ctx, ast.Store):
                local.add(x.id)
            elif isinstance(x, ast.ExceptHandler) and x.name:
                local.add(x.name)
        body = copy.deepcopy(fn.body)
        ywrap = [x for b in body for x in ast.walk(b) if isinstance(x, ast.Expr) and isinstance(x.value, ast.Yield)]
        if len(ywrap) != 1:
            return None
        mark = ywrap[0]
        yielded = mark.value.value

        class Ren(ast.NodeTransformer):
            def visit_Name(self_, node):
                if node.id in local:
                    node.id = node.id + sfx
                return node

            def visit_ExceptHandler(self_, node):
                if node.name in local:
                    node.name = node.name + sfx
                self_.generic_visit(node)
                return node

            def visit_Lambda(self_, node):
                return node

            def visit_FunctionDef(self_, node):
                return node
        for i_, b in enumerate(body):
            body[i_] = Ren().visit(b)
        # the block stands where the yield stood
        repl: List[ast.stmt] = []
        if st.items[0].optional_vars is not None:
            val = yielded if yielded is not None else ast.Constant(value=None)
            asg = ast.Assign(targets=[st.items[0].optional_vars], value=val)
            ast.copy_location(asg, st)
            ast.fix_missing_locations(asg)
            repl.append(asg)
        repl.extend(st.body)

        def put(stmts):
            for i_, x in enumerate(stmts):
                if x is mark:
                    stmts[i_:i_ + 1] = repl
                    return True
                for fld in ("body", "orelse", "finalbody"):
                    sub = getattr(x, fld, None)
                    if isinstance(sub, list) and put(sub):
                        return True
                for h in getattr(x, "handlers", []) or []:
                    if put(h.body):
                        return True
            return False
        if not put(body):
            return None
        # bind the parameters
        out: List[Path] = []
        for q, pos, kw in self.call_args(call, p):
            if q.status != "live":
                out.append(q)
                continue
            bound = self.bind_params(fn, selfbind is not None, pos, kw, self.module)
            if selfbind is not None and params:
                bound[params[0]] = self.selfterm
            for k, v in bound.items():
                q.env[k + sfx] = v
            self.ev(q, "enter", text=fn.name, args=tuple(v for v in bound.values() if isinstance(v, Term)), line=st.lineno,
                    target=Sym("args", tuple(Sym("kw:" + k, (v,)) for k, v in bound.items() if isinstance(v, Term))))
            for r in self.block(body, [q]):
                for k in [k for k in r.env if k.endswith(sfx)]:
                    r.env.pop(k, None)
                out.append(r)
        return out

    def _own_plain_decorator(self, d: ast.expr, p: Path) -> bool:
        """A decorator that is a private module-level function of the repository or a function defined in the enclosing one
        (possibly called with arguments: ``@rerouted(cls)``)."""
        f0 = d.func if isinstance(d, ast.Call) else d
        if isinstance(f0, ast.Name):
            if isinstance(p.env.get(f0.id), Fn):
                return True
            r = self.repo.resolve_name(self.module, f0.id)
            return bool(r and r[0] == "func" and (r[1].name.startswith("_") or r[1].module.name.split(".")[-1].startswith("_")))
        return False

    def augmented(self, st: ast.AugAssign, cur: Term, t: Term, p: Path) -> Term:
        """``x op= v`` binds x to ``x op v``; for lists whose contents are known, ``+=`` is the concatenation."""
        if isinstance(st.op, ast.Add):
            if isinstance(cur, (Child, Coll)) and self._is_fresh_copy(st.target.id, p):
                cur = Seq([Sym("star", (cur,))])
            if isinstance(cur, Seq) or (isinstance(cur, Sym) and cur.head == "list[]" and not cur.args):
                base = list(cur.items) if isinstance(cur, Seq) else []
                return Seq(base + (list(t.items) if isinstance(t, Seq) else [Sym("star", (t,))]))
        return Sym("binop:" + type(st.op).__name__, (cur, t))

    def _exit_as_handlers(self, st, body, cm_term: Term, xfn: ast.FunctionDef, paths: List[Path], idx: int):
        """A context-manager class whose ``__exit__`` acts on the exception by type —
        ``if isinstance(exc, T): raise X(...) from exc`` / ``return True`` — is, by the definition of ``with``,
        ``try: BODY except T as exc: <what __exit__ does>; re-raised unless it returned true``.
        The body is wrapped in that ``try`` (the call of ``__exit__`` is left to the interpreter, so helpers and
        the object's fields are looked through as usual)."""
        names = [a.arg for a in xfn.args.posonlyargs + xfn.args.args]
        if len(names) < 3:
            return None
        types_: List[ast.expr] = []
        swallows_or_raises = True
        for s_ in xfn.body:
            if isinstance(s_, ast.Expr) and isinstance(s_.value, ast.Constant):
                continue
            if isinstance(s_, ast.If) and isinstance(s_.test, ast.Call) and isinstance(s_.test.func, ast.Name) and len(s_.test.args) == 2 \
                    and ((s_.test.func.id == "isinstance" and isinstance(s_.test.args[0], ast.Name) and s_.test.args[0].id == names[2])
                         or (s_.test.func.id == "issubclass" and isinstance(s_.test.args[0], ast.Name) and s_.test.args[0].id == names[1])) and not s_.orelse:
                types_.append(s_.test.args[1])
                last = s_.body[-1] if s_.body else None
                if not (isinstance(last, ast.Raise) or (isinstance(last, ast.Return) and isinstance(last.value, ast.Constant) and last.value.value is True)):
                    swallows_or_raises = False
                continue
            if isinstance(s_, ast.Return) and (s_.value is None or (isinstance(s_.value, ast.Constant) and not s_.value.value)):
                continue
            return None
        if not types_:
            return None
        n_ = self.ctx.__dict__.setdefault("synth_n", 0)
        self.ctx.synth_n = n_ + 1
        cm_name, ex_name = f"cm$x{n_}", f"exc$x{n_}"
        for q in paths:
            q.env[cm_name] = cm_term
        self.ctx.__dict__.setdefault("cm_keys", set()).add(cm_term.key())      # (its __exit__ is looked through, public class or not)
        call = ast.Call(func=ast.Attribute(value=ast.Name(id=cm_name, ctx=ast.Load()), attr="__exit__", ctx=ast.Load()),
                        args=[ast.Call(func=ast.Name(id="type", ctx=ast.Load()), args=[ast.Name(id=ex_name, ctx=ast.Load())], keywords=[]),
                              ast.Name(id=ex_name, ctx=ast.Load()), ast.Constant(value=None)], keywords=[])
        handlers = []
        for ty in types_:
            hbody: List[ast.stmt] = [ast.Expr(value=call)]
            if not swallows_or_raises:
                hbody = [ast.If(test=ast.UnaryOp(op=ast.Not(), operand=call), body=[ast.Raise(exc=None, cause=None)], orelse=[])]
            handlers.append(ast.ExceptHandler(type=ty, name=ex_name, body=hbody))
        tr = ast.Try(body=list(body), handlers=handlers, orelse=[], finalbody=[])
        ast.copy_location(tr, st)
        ast.fix_missing_locations(tr)
        for n2 in ast.walk(tr):
            if hasattr(n2, "lineno") and not getattr(n2, "lineno", None):
                n2.lineno = st.lineno
        return [tr]

    def assign(self, tg, t: Term, p: Path, st):
        if isinstance(tg, ast.Name):
            p.env[tg.id] = t
            p.ver[tg.id] = p.ver.get(tg.id, 0) + 1
            v_ = getattr(st, "value", None)
            if isinstance(st, (ast.Assign, ast.AnnAssign)) and v_ is not None and len(getattr(st, "targets", [None])) == 1 \
                    and (st.targets[0] if isinstance(st, ast.Assign) else st.target) is tg:
                reads = {n_.id: p.ver.get(n_.id, 0) for n_ in ast.walk(v_) if isinstance(n_, ast.Name)}
                p.src[tg.id] = (ast.unparse(v_), v_, reads)
            else:
                p.src.pop(tg.id, None)
        elif isinstance(tg, (ast.Tuple, ast.List)):
            for i, e in enumerate(tg.elts):
                self.assign(e, project(t, i), p, st)
        elif isinstance(tg, ast.Attribute):
            base = tg.value
            if isinstance(base, ast.Name) and base.id in ("self", "cls") and p.env.get(base.id) is self.selfterm:
                p.env[f"self.{tg.attr}"] = t
            bt = p.env.get(base.id) if isinstance(base, ast.Name) else None
            if isinstance(bt, Sym) and bt.head.startswith("new:"):
                p.heap[f"{bt.key()}.{tg.attr}"] = t      # attribute of a plain object built on this path
            self.ev(p, "store", text=ast.unparse(tg), target=t, line=st.lineno, op=self.fname,
                    args=(bt if bt is not None else Opaque("obj:" + ast.unparse(base)[:40]), Const(tg.attr)))
        elif isinstance(tg, ast.Subscript):
            cont = self.peek(tg.value, p) if isinstance(tg.value, (ast.Name, ast.Attribute)) else None
            if isinstance(tg.value, ast.Name) and (isinstance(cont, Sym) and cont.head in ("dict{}", "call:dict") and not cont.args
                                                   or isinstance(cont, Coll) and getattr(cont, "kind", "") == "dict" and getattr(cont, "local", False)):
                # item store into a dictionary built up locally: it now holds key -> value
                r_ = self.expr(tg.slice, p.fork()) if not isinstance(tg.slice, ast.Slice) else []
                kt = r_[0][1] if len(r_) == 1 else None
                if isinstance(cont, Coll) and cont.elem.key() != t.key():
                    nc = Coll(Sym("oneof", (cont.elem, t)), cont.keyterm)
                else:
                    nc = Coll(t, kt)
                nc.kind = "dict"
                nc.local = True
                p.env[tg.value.id] = nc
            elif isinstance(tg.value, ast.Name) and isinstance(cont, Sym) and (
                    (cont.head in ("call:dict", "call:copy") and len(cont.args) == 1) or cont.head == "dict") and not isinstance(tg.slice, ast.Slice):
                # item store into a local copy of a dictionary: the copy now also holds key -> value
                r_ = self.expr(tg.slice, p.fork())
                kt = r_[0][1] if len(r_) == 1 else Opaque("key")
                base = cont.args if cont.head == "dict" else (Sym("dstar", (cont.args[0],)),)
                p.env[tg.value.id] = Sym("dict", tuple(base) + (Sym("item", (kt, t)),))
            if cont is None and isinstance(tg.value, (ast.Name, ast.Attribute)):
                r_ = self.expr(tg.value, p.fork())
                cont = r_[0][1] if len(r_) == 1 else None
            idx = self.peek(tg.slice, p) if isinstance(tg.slice, (ast.Name, ast.Attribute, ast.Constant)) else None
            if idx is None and not isinstance(tg.slice, ast.Slice):
                r_ = self.expr(tg.slice, p.fork())
                idx = r_[0][1] if len(r_) == 1 else None
            self.ev(p, "store", text=ast.unparse(tg), target=t, line=st.lineno, op=self.fname,
                    args=(cont if cont is not None else Opaque("obj:" + ast.unparse(tg.value)[:40]),
                          Sym("index", (idx,)) if idx is not None else Opaque("index")))
        elif isinstance(tg, ast.Starred):
            self.assign(tg.value, Opaque("star"), p, st)

    def do_raise(self, st: ast.Raise, p: Path) -> List[Path]:
        out = []
        if st.exc is None:
            p.status = "raise"
            p.exc = (p.env.get("<exc>", Opaque("reraise")).key(), "reraise", st.lineno)
            self.ev(p, "raise", text="<reraise>", line=st.lineno)
            return [p]
        for q, t in self.expr(st.exc, p):
            if q.status != "live":
                out.append(q)
                continue
            cause = "none"
            if st.cause is not None:
                cause = "from " + ast.unparse(st.cause)
            typ = exc_type_text(st.exc, t)
            q.status = "raise"
            q.exc = (typ, cause, st.lineno)
            self.ev(q, "raise", text=ast.unparse(st.exc), line=st.lineno, target=t,
                    args=(Sym(cause),))
            out.append(q)
        return out

    def decide(self, test: ast.expr, p: Path) -> Optional[bool]:
        """Statically decide a test on node terms / constants, else None."""
        if isinstance(test, ast.UnaryOp) and isinstance(test.op, ast.Not):
            r = self.decide(test.operand, p)
            return None if r is None else (not r)
        if isinstance(test, ast.BoolOp):
            rs = [self.decide(v, p) for v in test.values]
            if isinstance(test.op, ast.And):
                if any(r is False for r in rs):
                    return False
                if all(r is True for r in rs):
                    return True
            else:
                if any(r is True for r in rs):
                    return True
                if all(r is False for r in rs):
                    return False
            return None
        if isinstance(test, ast.Call) and isinstance(test.func, ast.Name) and test.func.id == "isinstance" and len(test.args) == 2:
            t = self.peek(test.args[0], p)
            classes = test.args[1].elts if isinstance(test.args[1], ast.Tuple) else [test.args[1]]
            caught = getattr(t, "caught_as", None)
            if caught:
                # the exception a handler caught is an instance of what the handler names
                asked = [ast.unparse(c).split(".")[-1] for c in classes]
                if any(exc_is_subclass(self.repo, c_, a_) for c_ in caught for a_ in asked) and len(caught) == 1:
                    return True
            names = []
            for c in classes:
                r = self.repo.resolve_expr(self.module, c)
                names.append(r[1] if r and r[0] == "class" else ast.unparse(c))
            if isinstance(t, New):
                res = False
                for n in names:
                    if isinstance(n, ClassInfo):
                        if t.cls.is_subclass_of(n.qualname):
                            res = True
                return res
            if isinstance(t, (Child, Val)) and t is not None:
                # a child of node kind is an Evaluatable; anything else unknown
                if isinstance(t, Child) and getattr(t, "kind", None) in ("node",):
                    for n in names:
                        if isinstance(n, ClassInfo) and n.name == "Evaluatable":
                            return True
                        if isinstance(n, ClassInfo) and n.name == "Cache":
                            return False
                dc_ = getattr(t, "declared", None)
                if isinstance(t, Child) and dc_ is not None and any(isinstance(n, ClassInfo) and (dc_ is n or dc_.is_subclass_of(n.qualname)) for n in names):
                    return True         # the field is declared as an instance of (a subclass of) the class asked for
                return None
            if isinstance(t, Const):
                if all(isinstance(n, ClassInfo) for n in names):
                    return False
                import builtins as _b
                bt = []
                for n in names:
                    if isinstance(n, ClassInfo):
                        continue
                    ty = getattr(_b, n.split(".")[-1], None) if isinstance(n, str) else None
                    if not isinstance(ty, type):
                        return None
                    bt.append(ty)
                if isinstance(t.v, _Sentinel):
                    return False
                return isinstance(t.v, tuple(bt))
            if isinstance(t, Sym) and t.head in ("list", "call:list", "list[]"):
                if "list" in [n for n in names if isinstance(n, str)]:
                    return True
            if isinstance(t, Sym) and t.head in ("name", "ext") and not t.args and names and all(isinstance(n, ClassInfo) for n in names):
                import builtins as _b
                if t.head == "ext" or hasattr(_b, t.text or ""):
                    return False        # a builtin (dict, list, len) or an object of another library is no instance of a class of this library
            return None
        if isinstance(test, ast.Compare) and len(test.ops) == 1 and isinstance(test.ops[0], (ast.Is, ast.IsNot)):
            a = self.peek(test.left, p)
            b = self.peek(test.comparators[0], p)
            res = None
            if isinstance(a, Const) and isinstance(b, Const):
                res = a.v == b.v and type(a.v) is type(b.v)
            elif (self._is_object(a) and isinstance(b, Const)) or (self._is_object(b) and isinstance(a, Const)):
                res = False
            elif self._enum_member(a) and self._enum_member(b):
                res = self._enum_member(a) == self._enum_member(b)        # two members of an enumeration: the same one or not
            elif self._private_sentinel(a) and self._private_sentinel(a) == self._private_sentinel(b):
                res = True          # the marker against itself
            elif self._private_sentinel(a) != self._private_sentinel(b) and (self._private_sentinel(a) or self._private_sentinel(b)):
                # a private module-level ``object()`` marker ("argument not given") against a value that reached the library
                # from outside — a parameter of the analysed function, a field of the object, a constant: never that marker
                other = b if self._private_sentinel(a) else a
                if isinstance(other, (Child, New, Const)) or (isinstance(other, Sym) and not other.args and not other.text and other.head.isidentifier()):
                    res = False
                elif isinstance(other, Sym) and other.head == "call:run" and (self._private_sentinel(a) or self._private_sentinel(b) or "") not in other.key():
                    res = False         # what a request's handler answered: the marker never leaves its module
            if res is None:
                return None
            return res if isinstance(test.ops[0], ast.Is) else (not res)
        if isinstance(test, ast.Compare) and len(test.ops) == 1 and isinstance(test.ops[0], (ast.Eq, ast.NotEq)):
            a = self.peek(test.left, p)
            b = self.peek(test.comparators[0], p)
            if isinstance(a, Const) and isinstance(b, Const) and not isinstance(a.v, _Sentinel) and not isinstance(b.v, _Sentinel) \
                    and isinstance(a.v, (str, int, bool, type(None))) and isinstance(b.v, (str, int, bool, type(None))):
                res = a.v == b.v
                return res if isinstance(test.ops[0], ast.Eq) else (not res)
            return None
        if isinstance(test, ast.Compare) and len(test.ops) == 1 and isinstance(test.ops[0], (ast.In, ast.NotIn)):
            a = self.peek(test.left, p)
            b = self.peek(test.comparators[0], p)
            if isinstance(a, Const) and isinstance(a.v, str) and isinstance(b, Seq) and b.items and all(isinstance(i, Const) and isinstance(i.v, str) for i in b.items):
                res = a.v in [i.v for i in b.items]
                return res if isinstance(test.ops[0], ast.In) else (not res)
            return None
        if isinstance(test, ast.Constant):
            return bool(test.value)
        if isinstance(test, (ast.Name, ast.Attribute)):
            t = self.peek(test, p)
            if isinstance(t, Seq) and not any(isinstance(x, Sym) and x.head == "star" for x in t.items):
                return bool(t.items)
            if isinstance(t, Sym) and t.head in ("list[]", "dict{}") and not t.args:
                return False
            if isinstance(t, Const):
                return bool(t.v) if not isinstance(t.v, _Sentinel) else True
            if isinstance(t, New):
                return True
            # a field declared as an expression / effect / cache object of the library is truthy (as in ``x or default``; R-TB keeps it so)
            dc_ = getattr(t, "declared", None) if isinstance(t, Child) else None
            if dc_ is not None and any(dc_.name == b_ or dc_.is_subclass_of(b_) for b_ in ("Evaluatable", "Effect", "Cache")):
                return True
        return None

    @staticmethod
    def _is_enum_class(ci) -> bool:
        return any(b.split(".")[-1] in ("Enum", "IntEnum", "StrEnum", "Flag") for b in ci.external_bases())

    def _enum_member(self, t) -> Optional[str]:
        """Text of the term when it is a member of an enumeration class of the repository (``_Source.PROVIDED``), else None."""
        if isinstance(t, Sym) and t.head == "classattr" and t.text and not t.args:
            ci = self.repo.classes.get(t.text.rpartition(".")[0])
            if ci is not None and self._is_enum_class(ci):
                member = t.text.rpartition(".")[2]
                if any(isinstance(st, (ast.Assign, ast.AnnAssign)) and any(isinstance(tg, ast.Name) and tg.id == member for tg in (st.targets if isinstance(st, ast.Assign) else [st.target]))
                       for st in ci.node.body):
                    return t.text
        return None

    def _private_sentinel(self, t) -> Optional[str]:
        """Qualified name when the term is a module-level ``_NAME = object()`` of the repository, else None."""
        if isinstance(t, Sym) and t.head == "global" and t.text:
            mod, _, name = t.text.rpartition(".")
            m = self.repo.modules.get(mod)
            if m is not None and name.startswith("_"):
                for s_ in m.tree.body:
                    tg = s_.targets[0] if isinstance(s_, ast.Assign) and len(s_.targets) == 1 else (s_.target if isinstance(s_, ast.AnnAssign) else None)
                    v = getattr(s_, "value", None)
                    if isinstance(tg, ast.Name) and tg.id == name and isinstance(v, ast.Call) and isinstance(v.func, ast.Name) and v.func.id == "object" and not v.args:
                        return t.text
                    # … or the member of a private enumeration of that module (``class _Miss(Enum): token = 0`` / ``_MISS = _Miss.token``:
                    # the typed spelling of the same marker), or the only instance of a private marker class (``_MISS = _Miss()``)
                    if isinstance(tg, ast.Name) and tg.id == name and v is not None:
                        cn = v.value if isinstance(v, ast.Attribute) else (v.func if isinstance(v, ast.Call) and not v.args and not v.keywords else None)
                        if isinstance(cn, ast.Name) and cn.id.startswith("_"):
                            cd = next((c_ for c_ in m.tree.body if isinstance(c_, ast.ClassDef) and c_.name == cn.id), None)
                            if cd is not None and (isinstance(v, ast.Call) or any(ast.unparse(b_).split(".")[-1] in ("Enum", "IntEnum", "Flag") for b_ in cd.bases)):
                                return t.text
        return None

    @staticmethod
    def _is_object(t) -> bool:
        """A term that certainly denotes an object (never None / a constant): a constructed
        node, a function, ``self``, or the result of calling a class."""
        if isinstance(t, (New, Fn, Seq, Coll)):
            return True
        if t is None:
            return False
        if isinstance(t, Sym) and t.head in ("dict", "dict{}", "list[]", "fstr"):
            return True          # a display / an f-string is an object, never None
        k = t.key()
        # (a caught exception — ``except E as e`` — is an exception object)
        # (what confectioner.mix / set_dotted_key … hand back is a dictionary of theirs: never None, never a marker of this library)
        return k == "self" or k == SELF.key() or k.startswith("new:") or k.startswith("exc-of(") or k.startswith("call:confectioner.mix(")

    def peek(self, e: ast.expr, p: Path) -> Optional[Term]:
        """Term of a side-effect-free name/attribute expression, else None."""
        if isinstance(e, ast.Name):
            if e.id in p.env:
                return p.env[e.id]
            r = self.repo.resolve_name(self.module, e.id)
            if e.id == "MISSING" or (r and r[0] == "var" and e.id == "MISSING"):
                return Const(MISSING)
            if e.id == "None":
                return Const(None)
            if r and r[0] == "var" and e.id.startswith("_"):
                g_ = Sym("global", text=f"{r[2].name}.{e.id}")
                if self._private_sentinel(g_):
                    return g_        # a private module-level marker
            return None
        if isinstance(e, ast.Constant):
            return Const(e.value)
        if isinstance(e, ast.Attribute) and isinstance(e.value, ast.Name) and isinstance(p.env.get(e.value.id), Sym) and p.env[e.value.id].head.startswith("new:"):
            # a field of a plain object built by the analysed code: what its constructor was given (or what was stored since)
            t_ = p.env[e.value.id]
            hk = f"{t_.key()}.{e.attr}"
            if hk in p.heap:
                return p.heap[hk]
            ci_ = self.plain_class(t_) or self.plain_class(t_, context_manager=True)
            if ci_ is not None and ci_.find_method(e.attr) is None:
                return self.init_field(ci_, t_, e.attr) or self.record_field(ci_, t_, e.attr)
            return None
        if isinstance(e, ast.Attribute) and isinstance(e.value, ast.Name) and e.value.id not in p.env:
            r = self.repo.resolve_name(self.module, e.value.id)
            if r and r[0] == "class" and self._is_enum_class(r[1]):
                return Sym("classattr", text=f"{r[1].qualname}.{e.attr}")       # a member of one of the library's enumerations
        if isinstance(e, ast.Attribute) and isinstance(e.value, ast.Name) and p.env.get(e.value.id) is self.selfterm and self.selfterm is not None:
            if f"self.{e.attr}" in p.env:
                return p.env[f"self.{e.attr}"]
            if self.selfattrs is not None:
                return self.selfattrs.get(e.attr)
            cc = self.class_constant(e.attr)
            if cc is not None:
                return cc
            return self.child(e.attr)
        return None

    def class_constant(self, attr: str) -> Optional[Term]:
        """A class-level constant (``_SELF_CHECKING = frozenset({"validate"})``): an attribute assigned once in the class body
        to a literal or a display of literals, never stored on instances or re-bound anywhere in the repository."""
        if self.cls is None or not attr.startswith("_") or attr.startswith("__"):
            return None         # a public class attribute is a default that users may override per object
        cache = self.ctx.__dict__.setdefault("class_constants", {})
        key = (self.cls.qualname, attr)
        if key in cache:
            return cache[key]
        cache[key] = None
        for kc in self.cls.mro():
            vals = [st.value for st in kc.node.body if isinstance(st, (ast.Assign, ast.AnnAssign)) and getattr(st, "value", None) is not None
                    and any(isinstance(t_, ast.Name) and t_.id == attr for t_ in (st.targets if isinstance(st, ast.Assign) else [st.target]))]
            if not vals:
                continue
            if len(vals) != 1:
                return None
            v = vals[0]
            if isinstance(v, ast.Call) and isinstance(v.func, ast.Name) and v.func.id in ("frozenset", "tuple", "set", "list") and len(v.args) == 1 and not v.keywords:
                v = v.args[0]
            items = None
            if isinstance(v, ast.Constant) and isinstance(v.value, (str, int, bool)):
                term: Optional[Term] = Const(v.value)
            elif isinstance(v, (ast.Tuple, ast.List, ast.Set)) and all(isinstance(x, ast.Constant) for x in v.elts):
                term = Seq([Const(x.value) for x in v.elts])
            else:
                return None
            # stored on instances / re-bound anywhere?
            for m_ in self.repo.modules.values():
                for n_ in ast.walk(m_.tree):
                    if isinstance(n_, ast.Attribute) and n_.attr == attr and isinstance(n_.ctx, (ast.Store, ast.Del)):
                        return None
                    if isinstance(n_, ast.Call) and isinstance(n_.func, ast.Name) and n_.func.id == "setattr" and len(n_.args) >= 2 \
                            and isinstance(n_.args[1], ast.Constant) and n_.args[1].value == attr:
                        return None
            cache[key] = term
            return term
        return None

    def child(self, attr: str) -> Term:
        c = Child(attr)
        if self.cls is not None:
            c.kind = self.attr_kind(self.cls, attr)
            for kc in self.cls.mro():
                if attr in kc.annotations:
                    a0 = ast.unparse(kc.annotations[attr]).split("[")[0].split(".")[-1]
                    ann_ = kc.annotations[attr]
                    head_ = ann_.value if isinstance(ann_, ast.Subscript) else ann_
                    if isinstance(head_, (ast.Name, ast.Attribute)):
                        dc_ = self.repo.resolve_class(kc.module, head_)
                        if dc_ is not None:
                            c.declared = dc_        # declared as an instance of this class of the library (``cache: Cache[A]``)
                    if a0 in ("Dict", "Mapping", "MutableMapping", "OrderedDict", "dict", "MappingProxyType"):
                        c.mapping = True     # iterating the attribute itself yields its keys
                    break
        return c

    @staticmethod
    def norm_cond(k: str, pol: bool = True):
        """(base term key, polarity) with ``not`` / ``is not`` folded into the polarity."""
        changed = True
        while changed:
            changed = False
            if k.startswith("unop:Not(") and k.endswith(")"):
                k, pol, changed = k[len("unop:Not("):-1], not pol, True
            elif k.startswith("cmp:IsNot("):
                k, pol, changed = "cmp:Is(" + k[len("cmp:IsNot("):], not pol, True
            elif k.startswith("cmp:NotIn("):
                k, pol, changed = "cmp:In(" + k[len("cmp:NotIn("):], not pol, True
            elif k.startswith("cmp:NotEq("):
                k, pol, changed = "cmp:Eq(" + k[len("cmp:NotEq("):], not pol, True
            elif k.startswith("call:bool(") and k.endswith(")") and len(Frame.split_args(k)) == 1:
                k, changed = k[len("call:bool("):-1], True      # as a test, bool(x) is x
        return k, pol

    @staticmethod
    def split_args(k: str) -> List[str]:
        """Top-level comma-separated arguments of ``head(a,b,…)``."""
        i = k.find("(")
        if i < 0 or not k.endswith(")"):
            return []
        body, out, depth, cur, quote = k[i + 1:-1], [], 0, [], None
        for ch in body:
            if quote:
                cur.append(ch)
                if ch == quote:
                    quote = None
                continue
            if ch in "'\"":
                quote = ch
                cur.append(ch)
            elif ch in "([{<" and ch != "<":
                depth += 1
                cur.append(ch)
            elif ch in ")]}":
                depth -= 1
                cur.append(ch)
            elif ch == "," and depth == 0:
                out.append("".join(cur))
                cur = []
            else:
                cur.append(ch)
        out.append("".join(cur))
        return out

    @staticmethod
    def atoms(conds) -> Dict[str, bool]:
        """Atomic pure tests whose truth value is established by the path's
        conditions: a true conjunction makes every conjunct true, a false
        disjunction makes every disjunct false; ``not`` etc. fold into the polarity."""
        out: Dict[str, bool] = {}

        def add(k, pol):
            k, pol = Frame.norm_cond(k, pol)
            if k.startswith("and(") and pol:
                for a in Frame.split_args(k):
                    add(a, True)
            elif k.startswith("or(") and not pol:
                for a in Frame.split_args(k):
                    add(a, False)
            else:
                out.setdefault(k, pol)
        for c in conds:
            if c[2]:
                add(c[2], c[1])
        return out

    @staticmethod
    def implied(q: Path, tt: Term) -> Optional[bool]:
        """Polarity of a pure test already decided earlier on this path."""
        k, flip = Frame.norm_cond(tt.key(), True)
        k2 = k
        for pure in ("call:bool(", "call:isinstance(", "call:callable(", "call:len(", "call:hasattr("):
            k2 = k2.replace(pure, "pure(")
        if "call" in k2 or "Val(" in k or "Opaque" in k or "elem(" in k:
            return None
        at = Frame.atoms(q.conds)
        if k in at:
            return at[k] if flip else (not at[k])
        return None

    def branch(self, test: ast.expr, p: Path) -> List[Tuple[Path, Optional[bool]]]:
        """Evaluate a test with short-circuit semantics -> [(path, outcome)]: every returned path has
        the *atomic* tests it decided appended to its conditions (``a and b`` / ``a or b`` / ``not a``
        are split, so the conditions of a path do not depend on how a guard was composed).
        outcome None marks a path that died while evaluating the test."""
        if isinstance(test, ast.UnaryOp) and isinstance(test.op, ast.Not):
            return [(q, (None if v is None else (not v))) for q, v in self.branch(test.operand, p)]
        if isinstance(test, ast.BoolOp):
            stop = isinstance(test.op, ast.Or)      # the value that ends the evaluation early
            cur: List[Tuple[Path, Optional[bool]]] = [(p, not stop)]
            for v in test.values:
                nxt: List[Tuple[Path, Optional[bool]]] = []
                for q, val in cur:
                    if val is None or val == stop:
                        nxt.append((q, val))
                    else:
                        nxt.extend(self.branch(v, q))
                cur = nxt
            return cur
        out: List[Tuple[Path, Optional[bool]]] = []
        d0 = self.decide(test, p)
        txt = ast.unparse(test)
        # a local tested twice without having been re-bound in between comes out the same way (``known = key in table`` …
        # ``if not (known or …)`` … ``x if known else y``)
        name_key = (test.id, p.ver.get(test.id, 0)) if isinstance(test, ast.Name) and test.id in p.env else None
        if name_key is not None:
            # (only for a local that holds the outcome of a comparison / test: a list or dictionary tested for emptiness changes
            # under the same name)
            bt_ = p.env[test.id]
            if not (isinstance(bt_, Sym) and (bt_.head.startswith("cmp:") or bt_.head in ("and", "or", "unop:Not", "call:isinstance", "call:hasattr", "call:callable"))):
                name_key = None
        if name_key is not None:
            # … and only while the local still stands for the expression it was assigned from (nothing that expression reads re-bound since)
            src_ = p.src.get(test.id)
            if src_ is None or test.id in src_[2] or not all(p.ver.get(n_, 0) == v_ for n_, v_ in src_[2].items()):
                name_key = None
        if d0 is None and name_key is not None and name_key in p.tested:
            d0 = p.tested[name_key]
        if isinstance(test, ast.Name) and test.id in p.src:
            # a test kept in a local stands for the expression it was assigned from — as long as nothing that
            # expression reads has been re-assigned since
            txt_, expr_, reads_ = p.src[test.id]
            if test.id not in reads_ and all(p.ver.get(n_, 0) == v_ for n_, v_ in reads_.items()):
                txt = txt_
                if d0 is None:
                    d0 = self.decide(expr_, p)
        for q, tt in self.expr(test, p):
            if q.status != "live":
                out.append((q, None))
                continue
            if d0 is None and isinstance(tt, Sym) and tt.head in ("and", "or", "unop:Not") and tt.args:
                # a local that holds a combined test (`keep = a and not b; if keep:`): split it as well
                out.extend(self._branch_term(tt, q, txt))
                continue
            d = d0 if d0 is not None else self.implied(q, tt)
            if d is None and isinstance(tt, Const) and not isinstance(tt.v, _Sentinel):
                d = bool(tt.v)          # the test evaluated to a constant on this path (a helper that returned False)
            if d is not False:
                a = q.fork() if d is None else q
                a.conds.append((txt, True, tt.key()))
                self.narrow(test, True, a)
                if name_key is not None:
                    a.tested[name_key] = True
                out.append((a, True))
            if d is not True:
                b = q.fork() if d is None else q
                b.conds.append((txt, False, tt.key()))
                self.narrow(test, False, b)
                if name_key is not None:
                    b.tested[name_key] = False
                out.append((b, False))
        return out

    def _branch_term(self, tt: Term, p: Path, txt: str) -> List[Tuple[Path, Optional[bool]]]:
        """branch() on an already evaluated boolean term (its atoms are pure: no events are replayed)."""
        if isinstance(tt, Sym) and tt.head == "unop:Not" and tt.args:
            return [(q, (None if v is None else (not v))) for q, v in self._branch_term(tt.args[0], p, txt)]
        if isinstance(tt, Sym) and tt.head in ("and", "or") and tt.args:
            stop = tt.head == "or"
            cur: List[Tuple[Path, Optional[bool]]] = [(p, not stop)]
            for a in tt.args:
                nxt: List[Tuple[Path, Optional[bool]]] = []
                for q, val in cur:
                    if val is None or val == stop:
                        nxt.append((q, val))
                    else:
                        nxt.extend(self._branch_term(a, q, txt))
                cur = nxt
            return cur
        d = self.implied(p, tt)
        if isinstance(tt, Const) and not isinstance(tt.v, _Sentinel):
            d = bool(tt.v)
        out: List[Tuple[Path, Optional[bool]]] = []
        if d is not False:
            a = p.fork() if d is None else p
            a.conds.append((txt, True, tt.key()))
            out.append((a, True))
        if d is not True:
            b = p.fork() if d is None else p
            b.conds.append((txt, False, tt.key()))
            out.append((b, False))
        return out

    def _pattern_test(self, pat, subj: ast.expr, binds: list) -> Optional[ast.expr]:
        """The test a ``case`` pattern stands for, as an ordinary expression over the subject (None: not modelled).
        Capture names are appended to ``binds`` as (name, expression)."""
        if isinstance(pat, ast.MatchClass) and not pat.patterns and not pat.kwd_patterns:
            return ast.Call(func=ast.Name(id="isinstance", ctx=ast.Load()), args=[subj, pat.cls], keywords=[])
        if isinstance(pat, ast.MatchValue):
            return ast.Compare(left=subj, ops=[ast.Eq()], comparators=[pat.value])
        if isinstance(pat, ast.MatchSingleton):
            return ast.Compare(left=subj, ops=[ast.Is()], comparators=[ast.Constant(value=pat.value)])
        if isinstance(pat, ast.MatchAs):
            inner = ast.Constant(value=True) if pat.pattern is None else self._pattern_test(pat.pattern, subj, binds)
            if inner is not None and pat.name:
                binds.append((pat.name, subj))
            return inner
        if isinstance(pat, ast.MatchOr):
            tests = [self._pattern_test(x, subj, binds) for x in pat.patterns]
            if any(t is None for t in tests):
                return None
            return ast.BoolOp(op=ast.Or(), values=tests)
        return None

    def do_match(self, st, p: Path) -> List[Path]:
        """``match subject: case …`` as the if/elif chain of the tests its patterns stand for (class patterns without
        sub-patterns, values, singletons, captures, wildcards, alternatives, guards)."""
        out: List[Path] = []
        if isinstance(st.subject, ast.Name):
            subj: ast.expr = st.subject
            cur = [p]
        else:
            name = f"<match@{st.lineno}>"
            cur = []
            for q, t in self.expr(st.subject, p):
                if q.status == "live":
                    q.env[name] = t
                    cur.append(q)
                else:
                    out.append(q)
            subj = ast.Name(id=name, ctx=ast.Load())
        for case in st.cases:
            binds: list = []
            test = self._pattern_test(case.pattern, subj, binds)
            if test is None:
                self.ctx.note(f"match pattern {type(case.pattern).__name__} not modelled in {self.fname}")
                test = ast.Call(func=ast.Name(id="<pattern>", ctx=ast.Load()), args=[subj], keywords=[])
            if case.guard is not None:
                test = ast.BoolOp(op=ast.And(), values=[test, case.guard])
            for x in ast.walk(test):
                if not hasattr(x, "lineno"):
                    x.lineno = x.end_lineno = case.pattern.lineno
                    x.col_offset = x.end_col_offset = case.pattern.col_offset
            nxt = []
            for q in cur:
                # captures are bound before the guard is evaluated
                for nm, ex in binds:
                    r_ = self.peek(ex, q)
                    if r_ is not None:
                        q.env[nm] = r_
                for q2, v in self.branch(test, q):
                    if v is None or q2.status != "live":
                        out.append(q2)
                    elif v:
                        out.extend(self.block(case.body, [q2]))
                    else:
                        nxt.append(q2)
            cur = nxt
        out.extend(cur)
        return out

    def do_if(self, st: ast.If, p: Path) -> List[Path]:
        out = []
        for q, v in self.branch(st.test, p):
            if v is None:
                out.append(q)
            elif v:
                out.extend(self.block(st.body, [q]))
            else:
                out.extend(self.block(st.orelse, [q]) if st.orelse else [q])
        return out

    def narrow(self, test, polarity: bool, p: Path):
        """Record facts implied by a branch (only `x is [not] MISSING/None`)."""
        if isinstance(test, ast.UnaryOp) and isinstance(test.op, ast.Not):
            return self.narrow(test.operand, not polarity, p)
        if isinstance(test, ast.Compare) and len(test.ops) == 1 and isinstance(test.ops[0], (ast.Is, ast.IsNot)):
            is_ = isinstance(test.ops[0], ast.Is) == polarity
            rhs = self.peek(test.comparators[0], p)
            if is_ and isinstance(rhs, Const) and isinstance(test.left, ast.Name):
                p.env[test.left.id] = rhs

    def do_for(self, st, p: Path) -> List[Path]:
        out: List[Path] = []
        early = any(isinstance(x, (ast.Return, ast.Break)) for b_ in st.body for x in ast.walk(b_))
        for q, it in self.expr(st.iter, p):
            if q.status != "live":
                out.append(q)
                continue
            elems = iter_elems(it)
            self.ev(q, "iter", target=it, line=st.lineno, text=ast.unparse(st.iter)[:80])
            if isinstance(it, Seq) and not it.items:
                elems = []                      # a known-empty iterable: the body never runs
            is_whole = len(elems) == 1 and not early and (not isinstance(it, Seq) or getattr(it, "from_whole", False)) and not getattr(it, "partial", False)
            if is_whole:
                self.ctx.whole += 1
            exact = isinstance(it, Seq) and not any(isinstance(x, Sym) and x.head == "star" for x in it.items)
            try:
                self._for_body(st, q, elems, out, nonempty=bool(getattr(it, "nonempty", False)), exact=exact)
            finally:
                if is_whole:
                    self.ctx.whole -= 1
        return dedupe(out)

    def _for_body(self, st, q: Path, elems: List[Term], out: List[Path], nonempty: bool = False, exact: bool = False) -> None:
        pending = [q]
        natural: List[Path] = []  # paths on which the iterable is exhausted
        # one element stands for "any number of them" unless the iterable is a display whose items are known (``[alias]``)
        abstract = len(elems) == 1 and not exact
        n_iter = self.ctx.unroll if abstract else len(elems)
        for i in range(n_iter):
            el = elems[0] if len(elems) == 1 else elems[i]
            nxt = []
            for r in pending:
                if abstract and not (i == 0 and nonempty):
                    natural.append(r.fork())  # the loop ends before this iteration
                body_in = r.fork()
                self.assign(st.target, el, body_in, st)
                if not hasattr(self, "_loop_nc"):
                    self._loop_nc = []
                self._loop_nc.append(len(body_in.conds))
                try:
                    body_out = self.block(st.body, [body_in])
                finally:
                    self._loop_nc.pop()
                for b in body_out:
                    if b.status == "break":
                        b.status = "live"
                        out.append(b)  # ``else`` is skipped after a break
                    elif b.status == "continue":
                        b.status = "live"
                        nxt.append(b)
                    elif b.status == "live":
                        nxt.append(b)
                    else:
                        out.append(b)
            pending = nxt
        for r in natural + pending:
            if st.orelse:
                out.extend(self.block(st.orelse, [r]))
            else:
                out.append(r)

    def do_try(self, st: ast.Try, p: Path) -> List[Path]:
        htypes = []
        for h in st.handlers:
            htypes.append(ast.unparse(h.type) if h.type is not None else "BaseException")
        n0 = len(p.events)
        gtxt = []
        for h, ht in zip(st.handlers, htypes):
            rer = False
            for x in ast.walk(h):
                if isinstance(x, ast.Raise) and (x.exc is None or (h.name and isinstance(x.exc, ast.Name) and x.exc.id == h.name)):
                    rer = True
            gtxt.append(ht + ("!" if rer else ""))
        self.guards.append("|".join(gtxt))
        try:
            body = self.block(st.body, [p.fork()])
        finally:
            self.guards.pop()
        out: List[Path] = []
        handler_inputs: List[Tuple[int, Path]] = []
        seen_prefix = set()
        for b in body:
            # explicit raise inside the body
            if b.status == "raise":
                caught = False
                for hi, h in enumerate(st.handlers):
                    if self.handler_catches(h, b.exc[0] if b.exc else "?"):
                        hp = b.derive(b.env, b.events, b.conds)
                        hp.env["<exc>"] = Sym(b.exc[0] if b.exc else "?")
                        hp.explicit_exc = True
                        handler_inputs.append((hi, hp))
                        caught = True
                        break
                if not caught:
                    out.append(b)
            else:
                out.append(b)
            # implicit failures of ops / calls inside the body
            for k in range(n0, len(b.events)):
                e = b.events[k]
                if e.kind not in ("op", "call") or e.failed:
                    continue
                if e.depth <= self.depth + 1:
                    pref = tuple(x.key() for x in b.events[n0:k + 1])
                else:
                    # deep inside inlined code: one handler path per distinct failing event
                    pref = ("deep", e.key())
                if pref in seen_prefix:
                    continue
                seen_prefix.add(pref)
                if e.kind == "call" and e.text.endswith("get_dotted_key") and len(e.args) >= 2:
                    probe = f"dotted_key_exists({e.args[0].key()},{e.args[1].key()})"
                    if any(probe in c[2] and (c[1] != c[2].startswith("unop:Not(")) for c in b.conds):
                        continue  # presence was established on this path
                for hi, h in enumerate(st.handlers):
                    if not self.event_may_raise_into(e, h):
                        continue
                    fe = e.copy()
                    fe.failed = True
                    hp = b.derive(e.env if e.env is not None and e.depth == self.depth else p.env,
                              b.events[:k] + [fe], b.conds[:max(e.ncond, len(p.conds))])      # what the path had decided when the event failed
                    hp.env["<exc>"] = Sym("exc-of", (e.target,) if isinstance(e.target, Term) else ())
                    handler_inputs.append((hi, hp))
        for hi, hp in handler_inputs:
            h = st.handlers[hi]
            if h.name:
                ex_t = hp.env.get("<exc>", Opaque("exc"))
                if isinstance(ex_t, Sym) and ex_t.head == "exc-of":
                    ex_t = Sym("exc-of", ex_t.args)
                    ex_t.caught_as = [ast.unparse(t_).split(".")[-1] for t_ in (h.type.elts if isinstance(h.type, ast.Tuple) else [h.type])] if h.type is not None else []
                hp.env[h.name] = ex_t
            hp.conds.append((f"except {htypes[hi]}", True, ""))
            implicit = not getattr(hp, "explicit_exc", False) and _only_reraises(h) and not getattr(self.ctx, "keep_reraise", False)
            for q in self.block(h.body, [hp]):
                if h.name and q.status == "live":
                    q.env[h.name] = Sym("unbound", text=h.name)     # ``except … as name`` deletes the name when the clause ends
                if implicit and q.status == "raise" and q.exc and q.exc[1] == "reraise" and q.events and q.events[-1].text == "<reraise>":
                    # clean up and let the same exception go on: the outcome of having no handler at all, and
                    # failures of calls outside any handler are not paths of this model either
                    continue
                out.append(q)
        if st.orelse:
            nxt = []
            for q in out:
                if q.status == "live" and not any(c[0].startswith("except ") for c in q.conds[len(p.conds):]):
                    nxt.extend(self.block(st.orelse, [q]))
                else:
                    nxt.append(q)
            out = nxt
        if st.finalbody:
            nxt = []
            for q in out:
                saved = (q.status, q.ret, q.exc)
                q.status = "live"
                for r in self.block(st.finalbody, [q]):
                    if r.status == "live":
                        r.status, r.ret, r.exc = saved
                    nxt.append(r)
            out = nxt
        return dedupe(out)

    def handler_catches(self, h: ast.ExceptHandler, exc_text: str) -> bool:
        if h.type is None:
            return True
        types = h.type.elts if isinstance(h.type, ast.Tuple) else [h.type]
        for t in types:
            r = exc_is_subclass(self.repo, exc_text, ast.unparse(t))
            if r is None or r:
                return True
        return False

    def event_may_raise_into(self, e: Event, h: ast.ExceptHandler) -> bool:
        """Could a failure of event ``e`` reach handler ``h``?  Ops on nodes
        raise EvaluationError subclasses (wrapper, R-EH); unknown calls may
        raise anything."""
        if h.type is None:
            return True
        types = h.type.elts if isinstance(h.type, ast.Tuple) else [h.type]
        names = [ast.unparse(t).split(".")[-1] for t in types]
        if e.kind == "op" and e.op in OPS:
            for n in names:
                if n in ("Exception", "BaseException"):
                    return True
                r = exc_is_subclass(self.repo, n, "EvaluationError")
                if r:
                    return True
            return False
        return True

    # --------------------------------------------------------- expressions
    def expr(self, e: Optional[ast.expr], p: Path) -> List[Tuple[Path, Term]]:
        if p.status != "live":
            return [(p, Opaque("dead"))]
        if e is None:
            return [(p, Const(None))]
        m = getattr(self, "e_" + type(e).__name__, None)
        if m is None:
            self.ctx.note(f"unsupported expression {type(e).__name__} in {self.fname}")
            return [(p, Opaque(type(e).__name__))]
        return m(e, p)

    def seq(self, exprs: List[ast.expr], p: Path) -> List[Tuple[Path, List[Term]]]:
        """Evaluate expressions left to right on every path."""
        cur: List[Tuple[Path, List[Term]]] = [(p, [])]
        for x in exprs:
            nxt = []
            for q, ts in cur:
                if q.status != "live":
                    nxt.append((q, ts + [Opaque("dead")]))
                    continue
                for q2, t in self.expr(x, q):
                    nxt.append((q2, ts + [t]))
            cur = nxt
        return cur

    def e_Constant(self, e, p):
        return [(p, Const(e.value))]

    def e_Name(self, e, p):
        if e.id in p.env:
            t0 = p.env[e.id]
            if isinstance(t0, Sym) and t0.head == "unbound" and isinstance(e.ctx, ast.Load):
                # the local was deleted on this path (the ``as`` name of an except clause that has ended)
                p.status = "raise"
                p.exc = ("UnboundLocalError", "none", e.lineno)
                self.ev(p, "raise", text=f"UnboundLocalError({e.id})", line=e.lineno, target=Sym("new:UnboundLocalError", (Const(e.id),)), args=(Sym("none"),))
                return [(p, Opaque("raised"))]
            return [(p, t0)]
        if e.id == "MISSING":
            return [(p, Const(MISSING))]
        if e.id in ("None", "True", "False"):
            return [(p, Const({"None": None, "True": True, "False": False}[e.id]))]
        r = self.repo.resolve_name(self.module, e.id)
        if r:
            if r[0] == "class":
                return [(p, Sym("class", text=r[1].qualname))]
            if r[0] == "func":
                return [(p, Fn("func", (None, None, None, r[1].module), r[1].node))]
            if r[0] == "var":
                t = self.global_term(r[2], e.id, r[1])
                return [(p, t)]
            if r[0] == "module":
                return [(p, Sym("module", text=r[1]))]
            if r[0] == "external":
                return [(p, Sym("ext", text=r[1]))]
        return [(p, Sym("name", text=e.id))]

    def global_term(self, module: Module, name: str, init) -> Term:
        """Term of a module-level variable: node constants such as
        ``_EFFECTS_DISABLED = Option(...)`` are resolved by interpreting the
        initialiser once (in module context); anything else stays symbolic."""
        key = f"{module.name}.{name}"
        cache = self.ctx.__dict__.setdefault("global_terms", {})
        if key in cache:
            return cache[key]
        cache[key] = Sym("global", text=key)
        if isinstance(init, ast.Subscript) and isinstance(init.value, (ast.Name, ast.Attribute)):
            # ``_Pairs = Iter[Union[K, V]]``: a parametrised alias of a class is that class
            r = self.repo.resolve_expr(module, init.value)
            if r and r[0] == "class":
                cache[key] = Sym("class", text=r[1].qualname)
        if isinstance(init, ast.Call) and self.depth < self.ctx.max_depth:
            f0 = init.func.value if isinstance(init.func, ast.Subscript) else init.func
            r = self.repo.resolve_expr(module, f0) if isinstance(f0, (ast.Name, ast.Attribute)) else None
            if r and r[0] == "class" and (r[1].is_subclass_of("Evaluatable") or r[1].is_subclass_of("Effect")):
                fr = Frame(self.ctx, module, None, None, None, self.depth + 1, self.via, f"<module {module.name}>")
                res = fr.expr(init, Path())
                terms = [t for q, t in res if q.status == "live"]
                if len(terms) == 1 and isinstance(terms[0], New):
                    terms[0].global_name = key
                    cache[key] = terms[0]
        elif isinstance(init, ast.Constant) and isinstance(init.value, (str, int, bool, bytes)) and _never_mutated(self.repo, module, name):
            # a named literal (``_DUNDER = "__"``) is that literal wherever it is read
            cache[key] = Const(init.value)
        elif isinstance(init, (ast.Dict, ast.Tuple)) and (init.keys if isinstance(init, ast.Dict) else init.elts) \
                and self.depth < self.ctx.max_depth and _never_mutated(self.repo, module, name):
            # a table written once at import (``_HANDLERS = {Request: handler, …}``): its display is its value
            if all(isinstance(x, (ast.Name, ast.Attribute, ast.Constant, ast.Tuple)) for x in ast.iter_child_nodes(init) if isinstance(x, ast.expr)):
                fr = Frame(self.ctx, module, None, None, None, self.depth + 1, self.via, f"<module {module.name}>")
                res = [(q, t) for q, t in fr.expr(init, Path()) if q.status == "live"]
                if len(res) == 1 and not res[0][0].events:
                    cache[key] = res[0][1]
        return cache[key]

    def e_Attribute(self, e, p):
        v = e.value
        if isinstance(v, ast.Name) and v.id in p.env and p.env[v.id] is self.selfterm and self.selfterm is not None:
            return self.self_attr(e.attr, p, e)
        out = []
        for q, t in self.expr(v, p):
            out.extend(self.get_attr(t, e.attr, q, e))
        return out

    def self_attr(self, attr: str, p: Path, node) -> List[Tuple[Path, Term]]:
        if f"self.{attr}" in p.env:
            return [(p, p.env[f"self.{attr}"])]
        if attr in XOPS or attr in ("bind", "apply", "__rshift__"):
            return [(p, Bound(self.selfterm, attr))]
        if self.cls is not None:
            r = self.cls.find_method(attr)
            if r is not None:
                owner, fn = r
                decos = [ast.unparse(d) for d in fn.decorator_list]
                if "property" in decos or any(d_.split(".")[-1] == "cached_property" for d_ in decos):
                    return self.inline(owner.module, self.cls, fn, self.selfterm, self.selfattrs, {}, p, node)
                if "staticmethod" in decos:
                    return [(p, Fn("func", (owner, None, None, owner.module), fn))]
                return [(p, Fn("method", (self.cls, self.selfterm, self.selfattrs, owner.module), fn))]
            pm = self.partial_method(self.cls, attr, self.selfterm, self.selfattrs)
            if pm is not None:
                return [(p, pm)]
        if attr == "__class__":
            return [(p, Sym("classof", (self.selfterm,)))]
        if self.selfattrs is None or attr not in self.selfattrs:
            cc = self.class_constant(attr)
            if cc is not None:
                return [(p, cc)]
        if self.selfattrs is not None:
            if attr in self.selfattrs:
                return [(p, self.selfattrs[attr])]
            return [(p, Opaque(f"{self.cls.name if self.cls else '?'}.{attr}"))]
        if attr in getattr(self.ctx, "track_reads", ()):
            # a rule asked where this attribute of the object is read (which locks are held there)
            self.ev(p, "read", text="self." + attr, target=self.child(attr), line=getattr(node, "lineno", 0))
        return [(p, self.child(attr))]

    def partial_method(self, cls: ClassInfo, attr: str, selfterm, selfattrs) -> Optional[Term]:
        """``name = functools.partialmethod(method, "keys")`` in a class body: the method with its leading arguments fixed
        (constants only — anything else is not followed)."""
        for kc in cls.mro():
            for st in kc.node.body:
                if isinstance(st, ast.Assign) and len(st.targets) == 1 and isinstance(st.targets[0], ast.Name) and st.targets[0].id == attr \
                        and isinstance(st.value, ast.Call) and ast.unparse(st.value.func).split(".")[-1] == "partialmethod" and st.value.args \
                        and isinstance(st.value.args[0], ast.Name):
                    r = cls.find_method(st.value.args[0].id)
                    rest, kws = st.value.args[1:], st.value.keywords
                    if r is None or not all(isinstance(a_, ast.Constant) for a_ in rest) or not all(k_.arg and isinstance(k_.value, ast.Constant) for k_ in kws):
                        return None
                    owner, fn = r
                    if any(ast.unparse(d) in ("staticmethod", "classmethod", "property") for d in fn.decorator_list):
                        return None
                    return Fn("method", (cls, selfterm, selfattrs, owner.module), fn, {k_.arg: Const(k_.value.value) for k_ in kws}, None,
                              tuple(Const(a_.value) for a_ in rest))
        return None

    def get_attr(self, t: Term, attr: str, p: Path, node) -> List[Tuple[Path, Term]]:
        if isinstance(t, Fn) and attr == "__name__" and isinstance(t.node, (ast.FunctionDef, ast.AsyncFunctionDef)) and not t.bound and not t.pos:
            return [(p, Const(t.node.name))]        # the name a ``def`` gave the function
        if isinstance(t, New):
            if attr in XOPS or attr in ("bind", "apply", "__rshift__"):
                return [(p, Bound(t, attr))]
            r = t.cls.find_method(attr)
            if r is not None:
                owner, fn = r
                decos = [ast.unparse(d) for d in fn.decorator_list]
                if "property" in decos or any(d_.split(".")[-1] == "cached_property" for d_ in decos):
                    return self.inline(owner.module, t.cls, fn, t, t.attrs, {}, p, node)
                return [(p, Fn("method", (t.cls, t, t.attrs, owner.module), fn))]
            if attr in t.attrs:
                return [(p, t.attrs[attr])]
            pm = self.partial_method(t.cls, attr, t, t.attrs)
            if pm is not None:
                return [(p, pm)]
            return [(p, Opaque(f"{t.cls.name}.{attr}"))]
        if isinstance(t, Child):
            if attr in XOPS or attr in ("bind", "apply", "fingerprint", "values", "items", "__rshift__"):
                return [(p, Bound(t, attr))]
            root = getattr(self.ctx, "root_cls", None)
            if t.key() == SELF.key() and root is not None and self.selfterm is not t:
                # the analysed object handed to a plain function: its attributes
                # are the same children as seen through ``self``
                fr = Frame(self.ctx, root.module, root, t, None, self.depth, self.via, self.fname)
                fr.guards = self.guards
                fr.held = self.held
                env_name = "<root>"
                p.env[env_name] = t
                return fr.self_attr(attr, p, node)
            c = Child(f"{t.path}.{attr}")
            return [(p, c)]
        if isinstance(t, Sym) and t.head == "module":
            r = self.repo.resolve_name(self.repo.modules[t.text], attr)
            if r:
                if r[0] == "class":
                    return [(p, Sym("class", text=r[1].qualname))]
                if r[0] == "func":
                    return [(p, Fn("func", (None, None, None, r[1].module), r[1].node))]
                if r[0] == "var":
                    return [(p, self.global_term(r[2], attr, r[1]))]
            return [(p, Sym("global", text=f"{t.text}.{attr}"))]
        if isinstance(t, Sym) and t.head == "class":
            ci = self.repo.classes.get(t.text)
            if ci is not None:
                r = ci.find_method(attr)
                if r is not None:
                    owner, fn = r
                    decos = [ast.unparse(d) for d in fn.decorator_list]
                    if "staticmethod" in decos:
                        return [(p, Fn("func", (owner, None, None, owner.module), fn))]
                    if "classmethod" in decos:
                        return [(p, Fn("method", (owner, t, None, owner.module), fn))]
                    return [(p, Fn("func", (owner, None, None, owner.module), fn))]
            return [(p, Sym("classattr", text=f"{t.text}.{attr}"))]
        if isinstance(t, Sym) and t.head == "ext":
            return [(p, Sym("ext", text=f"{t.text}.{attr}"))]
        if isinstance(t, Sym) and t.head.startswith("new:"):
            hk = f"{t.key()}.{attr}"
            if hk in p.heap:
                return [(p, p.heap[hk])]
            ci = self.plain_class(t)
            if ci is None:
                # a field of a public plain object built by the analysed code, set from a constructor argument: that argument
                pub = self.plain_class(t, context_manager=True)
                if pub is not None and pub.find_method(attr) is None:
                    v = self.init_field(pub, t, attr)
                    if v is not None:
                        return [(p, v)]
            if ci is not None:
                r = ci.find_method(attr)
                if r is not None and any(ast.unparse(d).split(".")[-1] in ("property", "cached_property") for d in r[1].decorator_list):
                    first = [a.arg for a in r[1].args.posonlyargs + r[1].args.args][:1]
                    return self.inline(r[0].module, None, r[1], None, None, {first[0]: t} if first else {}, p, node)
                if r is None:
                    v = self.init_field(ci, t, attr)
                    if v is None:
                        v = self.record_field(ci, t, attr)
                    if v is not None:
                        return [(p, v)]
        return [(p, Sym("attr", (t,), text=attr) if False else Sym(f"attr:{attr}", (t,)))]

    def record_field(self, ci: ClassInfo, t: Sym, attr: str) -> Optional[Term]:
        """A field of a private record class (``NamedTuple`` / ``@dataclass`` without an ``__init__`` of its own): the constructor
        argument in the position of the field's annotation, or given by keyword."""
        if ci.find_method("__init__") is not None:
            return None
        is_record = "NamedTuple" in [b.split(".")[-1] for b in ci.external_bases()] or any(
            ast.unparse(d).split("(")[0].split(".")[-1] == "dataclass" for d in ci.node.decorator_list)
        if not is_record:
            return None
        fields = [st.target.id for st in ci.node.body if isinstance(st, ast.AnnAssign) and isinstance(st.target, ast.Name)]
        if attr not in fields:
            return None
        for a_ in t.args:
            if isinstance(a_, Sym) and a_.head == "kw:" + attr and a_.args:
                return a_.args[0]
        pos = [a_ for a_ in t.args if not (isinstance(a_, Sym) and a_.head.startswith("kw:"))]
        if any(isinstance(a_, Sym) and a_.head == "star" for a_ in pos):
            return None
        i = fields.index(attr)
        return pos[i] if i < len(pos) else None

    def plain_class(self, t: Term, context_manager: bool = False) -> Optional[ClassInfo]:
        """The repository class of a ``new:<Name>(…)`` term (a plain, non-node object built by the analysed code)."""
        if isinstance(t, Sym) and t.head.startswith("new:"):
            context_manager = context_manager or t.key() in self.ctx.__dict__.get("cm_keys", ())
            # private helper classes are implementation detail to look through; calls on the public ones
            # (Request.run, Runtime.handle, Cache.get …) are the events the rules talk about.  As the manager of a ``with``
            # a public helper class is looked through as well (its __enter__/__exit__ are what the statement means) —
            # except a Runtime, whose entry is an event of its own
            hits = [c for c in self.repo.classes.values() if c.name == t.head[4:] and (c.name.startswith("_") or (
                context_manager and not c.is_subclass_of("Runtime") and c.name != "Runtime" and not c.module.name.startswith("labrea.mypy")))]
            if len(hits) == 1 and not (hits[0].is_subclass_of("Evaluatable") or hits[0].is_subclass_of("Effect")):
                return hits[0]
        return None

    def init_field(self, ci: ClassInfo, t: Sym, attr: str) -> Optional[Term]:
        """``self.attr = <parameter>`` at the top level of ``__init__``: the constructor argument."""
        r = ci.find_method("__init__")
        if r is None:
            return None
        fn = r[1]
        names = [x.arg for x in fn.args.posonlyargs + fn.args.args][1:] + [x.arg for x in fn.args.kwonlyargs]
        selfname = ([x.arg for x in fn.args.posonlyargs + fn.args.args] or ["self"])[0]
        for st in fn.body:
            tg = st.targets[0] if isinstance(st, ast.Assign) and len(st.targets) == 1 else (st.target if isinstance(st, ast.AnnAssign) else None)
            if isinstance(tg, ast.Attribute) and tg.attr == attr and isinstance(tg.value, ast.Name) and tg.value.id == selfname \
                    and isinstance(st.value, ast.Name) and st.value.id in names:
                i = names.index(st.value.id)
                if i < len(t.args) and not (isinstance(t.args[i], Sym) and t.args[i].head.startswith("kw:")):
                    return t.args[i]
        return None

    def e_Subscript(self, e, p):
        out = []
        base = self.peek(e.value, p) if isinstance(e.value, ast.Name) else None
        if base is not None and (base is self.selfterm or isinstance(base, New)):
            ci = self.cls if base is self.selfterm else base.cls
            r = ci.find_method("__getitem__") if ci is not None else None
            if r is not None:
                owner, fn = r
                for q, idx in self.expr(e.slice, p):
                    attrs = self.selfattrs if base is self.selfterm else base.attrs
                    out.extend(self.inline(owner.module, ci, fn, base, attrs,
                                           self.bind_params(fn, True, [idx], {}, owner.module), q, e))
                return out
        root = getattr(self.ctx, "root_cls", None)
        if isinstance(base, Child) and base.key() == SELF.key() and root is not None and self.selfterm is not base and not isinstance(e.slice, ast.Slice):
            # the analysed object handed to a plain function and indexed there: its own __getitem__, as through ``self[…]``
            r = root.find_method("__getitem__")
            if r is not None:
                owner, fn = r
                fr = Frame(self.ctx, root.module, root, base, None, self.depth, self.via, self.fname)
                fr.guards = self.guards
                fr.held = self.held
                for q, idx in self.expr(e.slice, p):
                    out.extend(fr.inline(owner.module, root, fn, base, None, fr.bind_params(fn, True, [idx], {}, owner.module), q, e))
                return out
        for q, (t, idx) in [(q, ts) for q, ts in self.seq([e.value, e.slice], p)]:
            if isinstance(e.slice, ast.Slice) and isinstance(t, (Child, Coll, Seq)):
                full = e.slice.lower is None and e.slice.upper is None and e.slice.step is None
                prefix = None
                if e.slice.lower is None and e.slice.step is None and e.slice.upper is not None:
                    r_ = self.expr(e.slice.upper, q.fork())
                    prefix = r_[0][1] if len(r_) == 1 else None     # xs[:n]: the first n elements
                if not full and isinstance(t, Coll):
                    t2 = Coll(t.elem, t.keyterm)
                    t2.kind = getattr(t, "kind", "other")
                    t2.partial = True      # a proper slice: iterating it does not visit every element
                    t2.prefix = prefix
                    t = t2
                elif not full and isinstance(t, Child):
                    t2 = Child(t.path)
                    for a_ in ("kind", "index"):
                        if hasattr(t, a_):
                            setattr(t2, a_, getattr(t, a_))
                    t2.partial = True
                    t2.prefix = prefix
                    t = t2
                out.append((q, t))
            elif isinstance(t, Child):
                if isinstance(e.ctx, ast.Load) and getattr(t, "kind", "other") == "other":
                    self.ev(q, "call", text="getitem", target=t, args=(idx,), line=e.lineno)
                c = Child(t.path + "[*]")
                c.index = idx
                c.kind = "node" if getattr(t, "kind", "") == "nodes" else getattr(t, "kind", "other")
                out.append((q, c))
            elif isinstance(t, Coll):
                out.append((q, t.elem))
            elif isinstance(t, Seq) and isinstance(idx, Const) and isinstance(idx.v, int) and -len(t.items) <= idx.v < len(t.items):
                out.append((q, t.items[idx.v]))
            elif isinstance(t, Sym) and t.head == "class":
                out.append((q, t))  # Option[Options] -> Option
            elif isinstance(t, Sym) and t.head == "dict" and isinstance(idx, Const) and isinstance(idx.v, str) and known_dict(t) is not None and idx.v in known_dict(t):
                out.append((q, known_dict(t)[idx.v]))      # an entry of a dictionary built up locally
            else:
                if isinstance(e.ctx, ast.Load) and isinstance(t, Sym) and not isinstance(e.slice, ast.Slice):
                    self.ev(q, "call", text="getitem", target=t, args=(idx,), line=e.lineno)
                out.append((q, Sym("getitem", (t, idx))))
        return out

    def e_Slice(self, e, p):
        return [(p, Sym("slice", text=ast.unparse(e)))]

    def e_BinOp(self, e, p):
        out = []
        for q, (a, b) in self.seq([e.left, e.right], p):
            out.append((q, Sym("binop:" + type(e.op).__name__, (a, b))))
        return out

    def e_UnaryOp(self, e, p):
        if isinstance(e.op, ast.USub) and isinstance(e.operand, ast.Constant) and isinstance(e.operand.value, (int, float)) and not isinstance(e.operand.value, bool):
            return [(p, Const(-e.operand.value))]        # a negative literal
        return [(q, Sym("unop:" + type(e.op).__name__, (t,))) for q, t in self.expr(e.operand, p)]

    def e_BoolOp(self, e, p):
        out = []
        for q, ts in self.seq(e.values, p):
            if isinstance(e.op, ast.Or):
                # ``x or {}`` / ``x or []`` normalise to x; ``None or y`` to y
                vals = [t for t in ts if not (isinstance(t, Const) and not t.v and not isinstance(t.v, _Sentinel))]
                vals = [t for t in vals if not (isinstance(t, Sym) and t.head in ("dict{}", "list[]"))] or vals[-1:]
                # an operand that is an expression / effect / cache object of the library is truthy (R-TB keeps it so): ``or`` stops there
                cut = None
                for i_, t in enumerate(vals):
                    dc_ = t.cls if isinstance(t, New) else getattr(t, "declared", None) if isinstance(t, Child) else None
                    if dc_ is not None and any(dc_.name == b_ or dc_.is_subclass_of(b_) for b_ in ("Evaluatable", "Effect", "Cache")):
                        cut = i_
                        break
                if cut is not None:
                    vals = vals[:cut + 1]
                if not vals:
                    vals = ts[-1:]
                if len(vals) == 1:
                    out.append((q, vals[0]))
                    continue
                out.append((q, Sym("or", tuple(vals))))
            else:
                out.append((q, Sym("and", tuple(ts))))
        return out

    def e_Compare(self, e, p):
        if len(e.ops) == 1 and isinstance(e.ops[0], (ast.Is, ast.IsNot)):
            # getattr(x, 'n', S) is S  (S a sentinel nothing else can be)  is  not hasattr(x, 'n')
            for a, b in ((e.left, e.comparators[0]), (e.comparators[0], e.left)):
                if isinstance(a, ast.Call) and isinstance(a.func, ast.Name) and a.func.id == "getattr" and len(a.args) == 3 and not a.keywords \
                        and isinstance(b, ast.Name) and isinstance(a.args[2], ast.Name) and a.args[2].id == b.id and b.id not in p.env:
                    r = self.repo.resolve_name(self.module, b.id)
                    if r and r[0] == "var" and isinstance(r[1], ast.Call) and ast.unparse(r[1]) == "object()":
                        has = ast.Call(func=ast.Name(id="hasattr", ctx=ast.Load()), args=[a.args[0], a.args[1]], keywords=[])
                        test = ast.UnaryOp(op=ast.Not(), operand=has) if isinstance(e.ops[0], ast.Is) else has
                        ast.copy_location(test, e)
                        ast.fix_missing_locations(test)
                        return self.expr(test, p)
        return [(q, Sym("cmp:" + ",".join(type(o).__name__ for o in e.ops), tuple(ts)))
                for q, ts in self.seq([e.left] + e.comparators, p)]

    def e_IfExp(self, e, p):
        if isinstance(e.orelse, (ast.Dict, ast.List)) and not (e.orelse.keys if isinstance(e.orelse, ast.Dict) else e.orelse.elts) \
                and isinstance(e.test, ast.Name) and isinstance(e.body, ast.Name) and e.test.id == e.body.id:
            alt = ast.BoolOp(op=ast.Or(), values=[e.body, e.orelse])        # ``x if x else {}`` is ``x or {}``
            ast.copy_location(alt, e)
            return self.e_BoolOp(alt, p)
        out = []
        for q, v in self.branch(e.test, p):
            if v is None:
                out.append((q, Opaque("dead")))
            elif v:
                out.extend(self.expr(e.body, q))
            else:
                out.extend(self.expr(e.orelse, q))
        return out

    def e_Tuple(self, e, p):
        return self._display(e.elts, p, "tuple")

    def e_List(self, e, p):
        return self._display(e.elts, p, "list")

    def e_Set(self, e, p):
        return self._display(e.elts, p, "set")

    def _display(self, elts, p, kind):
        out = []
        plain = [x.value if isinstance(x, ast.Starred) else x for x in elts]
        for q, ts in self.seq(plain, p):
            items: List[Term] = []
            for x, t in zip(elts, ts):
                if isinstance(x, ast.Starred):
                    if isinstance(t, Seq) and getattr(t, "kind", "") != "gen" and not any(isinstance(i_, Sym) and i_.head == "star" for i_ in t.items):
                        items.extend(t.items)       # *xs of a display whose items are known: the items themselves
                    else:
                        items.append(Sym("star", (t,)))
                else:
                    items.append(t)
            if not items and kind == "list":
                out.append((q, Sym("list[]")))
            else:
                s = Seq(items)
                s.kind = kind
                out.append((q, s))
        return out

    def e_Dict(self, e, p):
        if not e.keys:
            return [(p, Sym("dict{}"))]
        out = []
        exprs = []
        for k, v in zip(e.keys, e.values):
            if k is not None:
                exprs.append(k)
            exprs.append(v)
        for q, ts in self.seq(exprs, p):
            items = []
            i = 0
            for k in e.keys:
                if k is None:
                    items.append(Sym("dstar", (ts[i],)))
                    i += 1
                else:
                    items.append(Sym("item", (ts[i], ts[i + 1])))
                    i += 2
            out.append((q, Sym("dict", tuple(items))))
        return out

    def e_JoinedStr(self, e, p):
        cur = [(p, [])]
        vals = [v.value for v in e.values if isinstance(v, ast.FormattedValue)]
        res = self.seq(vals, p)
        out = []
        for q, ts in res:
            # an f-string whose every placeholder is a known string constant is that constant
            parts, k = [], 0
            for v in e.values:
                if isinstance(v, ast.Constant):
                    parts.append(str(v.value))
                    continue
                t = ts[k] if isinstance(ts, (list, tuple)) and k < len(ts) else None
                k += 1
                if v.conversion == -1 and v.format_spec is None and isinstance(t, Const) and isinstance(t.v, str):
                    parts.append(t.v)
                else:
                    parts = None
                    break
            if parts is not None and k:
                out.append((q, Const("".join(parts))))
                continue
            # structured: the literal pieces and the formatted terms, in order
            items, k = [], 0
            for v in e.values:
                if isinstance(v, ast.Constant):
                    items.append(Const(str(v.value)))
                    continue
                t = ts[k] if isinstance(ts, (list, tuple)) and k < len(ts) else Opaque("fmt")
                k += 1
                if v.conversion != -1 or v.format_spec is not None:
                    t = Sym("fmt" + ("!" + chr(v.conversion) if v.conversion != -1 else "") + (":spec" if v.format_spec is not None else ""), (t,))
                items.append(t)
            out.append((q, Sym("fstr", tuple(items)) if items else Const("")))
        return out

    def e_FormattedValue(self, e, p):
        return [(q, Sym("fmt", (t,))) for q, t in self.expr(e.value, p)]

    def e_Lambda(self, e, p):
        return [(p, Fn("lambda", (self.cls, self.selfterm, self.selfattrs, self.module), e, frame=dict(p.env)))]

    def e_Starred(self, e, p):
        return [(q, Sym("star", (t,))) for q, t in self.expr(e.value, p)]

    def e_NamedExpr(self, e, p):
        out = []
        for q, t in self.expr(e.value, p):
            q.env[e.target.id] = t
            out.append((q, t))
        return out

    def e_Await(self, e, p):
        return self.expr(e.value, p)

    def e_Yield(self, e, p):
        out = []
        for q, t in (self.expr(e.value, p) if e.value else [(p, Const(None))]):
            if q.status == "live":
                q.env["<yields>"] = Seq(list(getattr(q.env.get("<yields>"), "items", [])) + [t])
            out.append((q, Const(None)))
        return out

    def e_YieldFrom(self, e, p):
        out = []
        for q, t in self.expr(e.value, p):
            if q.status == "live":
                q.env["<yields>"] = Seq(list(getattr(q.env.get("<yields>"), "items", [])) + [Sym("star", (t,))])
            out.append((q, Const(None)))
        return out

    # comprehensions ------------------------------------------------------
    def _comp(self, e, elts: List[ast.expr], p: Path, kind: str):
        if len(e.generators) == 1 and not e.generators[0].ifs and len(elts) == 1:
            g = e.generators[0]
            it = self.peek(g.iter, p)
            if isinstance(it, Seq) and not any(isinstance(x, Sym) and x.head == "star" for x in it.items):
                saved = dict(p.env)
                self.ev(p, "iter", target=it, line=getattr(g.iter, "lineno", 0), text=ast.unparse(g.iter)[:80])
                cur = [(p, [])]
                fw = bool(getattr(it, "from_whole", False))     # one entry per element of a collection: walking it visits every element
                if fw:
                    self.ctx.whole += 1
                try:
                    for item in it.items:
                        nxt = []
                        for q, acc in cur:
                            if q.status != "live":
                                nxt.append((q, acc))
                                continue
                            self.assign(g.target, item, q, e)
                            for q2, t in self.expr(elts[0], q):
                                nxt.append((q2, acc + [t]))
                        cur = nxt
                finally:
                    if fw:
                        self.ctx.whole -= 1
                out = []
                for q, acc in cur:
                    for k in list(q.env):
                        if k not in saved:
                            del q.env[k]
                    q.env.update(saved)
                    rs = Seq(acc)
                    if fw:
                        rs.from_whole = True
                    out.append((q, rs))
                return out
        saved_env = dict(p.env)
        self.in_comp += 1
        try:
            results: List[Tuple[Path, List[Term]]] = []
            src_of_comp: List[Term] = []

            def gen(idx: int, q: Path, acc: List[Term]) -> List[Tuple[Path, List[Term]]]:
                """Run generators idx.. on path q sequentially over all
                abstract elements; returns (path, collected elt terms)."""
                if q.status != "live":
                    return [(q, acc)]
                if idx == len(e.generators):
                    out_ = []
                    for q2, ts in self.seq(elts, q):
                        t = ts[-1]
                        if len(ts) == 2:
                            t = Sym("kv", (ts[0], ts[1]))
                        out_.append((q2, acc + [t]))
                    return out_
                g = e.generators[idx]
                out_ = []
                for q2, it in self.expr(g.iter, q):
                    if q2.status != "live":
                        out_.append((q2, acc))
                        continue
                    cur = [(q2, acc)]
                    self.ev(q2, "iter", target=it, line=getattr(g.iter, "lineno", 0), text=ast.unparse(g.iter)[:80])
                    if idx == 0 and len(e.generators) == 1:
                        src_of_comp.append(it)
                    comp_whole = (not isinstance(it, Seq) or getattr(it, "from_whole", False)) and not getattr(it, "partial", False)
                    pre_ = getattr(it, "prefix", None)
                    comp_sofar = getattr(it, "partial", False) and pre_ is not None and pre_.key() == "binop:Add(position,Const(1))"
                    if comp_whole:
                        self.ctx.whole += 1
                    if comp_sofar:
                        self.ctx.sofar = getattr(self.ctx, "sofar", 0) + 1
                    try:
                        cur = self._gen_elems(e, g, idx, it, cur, gen)
                    finally:
                        if comp_whole:
                            self.ctx.whole -= 1
                        if comp_sofar:
                            self.ctx.sofar -= 1
                    out_.extend(cur)
                    continue
                    for el in iter_elems(it):
                        nxt = []
                        for q3, a3 in cur:
                            if q3.status != "live":
                                nxt.append((q3, a3))
                                continue
                            self.assign(g.target, el, q3, e)
                            conds = [q3]
                            for c in g.ifs:
                                conds = [r for q4 in conds for r, _ in self.expr(c, q4)]
                            for q4 in conds:
                                nxt.extend(gen(idx + 1, q4, a3))
                        cur = nxt
                    out_.extend(cur)
                return out_

            out = []
            for q, acc in gen(0, p.fork(), []):
                if q.status != "live":
                    out.append((q, Opaque("dead")))
                    continue
                uniq: List[Term] = []
                for t in acc:
                    if t not in uniq:
                        uniq.append(t)
                if not uniq:
                    elt: Term = Opaque("empty")
                elif len(uniq) == 1:
                    elt = uniq[0]
                else:
                    elt = Sym("oneof", tuple(uniq))
                keyterm = None
                if isinstance(elt, Sym) and elt.head == "kv":
                    keyterm, elt = elt.args
                res = Coll(elt, keyterm)
                res.kind = kind
                if src_of_comp and getattr(src_of_comp[-1], "partial", False):
                    res.partial = True          # a comprehension over some of the elements holds some of the results
                    res.prefix = getattr(src_of_comp[-1], "prefix", None)
                for k in list(q.env):
                    if k not in saved_env:
                        del q.env[k]
                q.env.update(saved_env)
                out.append((q, res))
            return out
        finally:
            self.in_comp -= 1

    def _gen_elems(self, e, g, idx, it, cur, gen):
        for el in ([] if isinstance(it, Seq) and not it.items else iter_elems(it)):
            nxt = []
            for q3, a3 in cur:
                if q3.status != "live":
                    nxt.append((q3, a3))
                    continue
                self.assign(g.target, el, q3, e)
                conds = [q3]
                for c in g.ifs:
                    nc = []
                    for q4 in conds:
                        for r, ct in self.expr(c, q4):
                            if r.status == "live":
                                # the element is kept exactly when this test holds
                                self.ev(r, "filter", text=ast.unparse(c)[:80], target=ct, args=(el,), line=getattr(c, "lineno", 0))
                            nc.append(r)
                    conds = nc
                for q4 in conds:
                    nxt.extend(gen(idx + 1, q4, a3))
            cur = nxt
        return cur

    def e_ListComp(self, e, p):
        return self._comp(e, [e.elt], p, "list")

    def e_SetComp(self, e, p):
        return self._comp(e, [e.elt], p, "set")

    def e_GeneratorExp(self, e, p):
        return self._comp(e, [e.elt], p, "gen")

    def e_DictComp(self, e, p):
        return self._comp(e, [e.key, e.value], p, "dict")

    # ---------------------------------------------------------------- calls
    def call_args(self, e: ast.Call, p: Path):
        """Evaluate arguments left to right -> [(path, pos terms, kw terms)]."""
        exprs = [a.value if isinstance(a, ast.Starred) else a for a in e.args] + [k.value for k in e.keywords]
        out = []
        for q, ts in self.seq(exprs, p):
            pos: List[Term] = []
            for a, t in zip(e.args, ts):
                if isinstance(a, ast.Starred) and isinstance(t, Seq) and getattr(t, "kind", "") != "gen" and not any(isinstance(i, Sym) and i.head == "star" for i in t.items):
                    pos.extend(t.items)     # *args of a known tuple: the arguments themselves
                elif isinstance(a, ast.Starred) and self.record_fields(t) is not None:
                    pos.extend(v_ for _, v_ in self.record_fields(t))       # *record: its fields in declaration order
                else:
                    pos.append(Sym("star", (t,)) if isinstance(a, ast.Starred) else t)
            kw: Dict[str, Term] = {}
            for k, t in zip(e.keywords, ts[len(e.args):]):
                if k.arg is None:
                    known = known_dict(t)
                    if known is not None and "**" not in kw:
                        kw.update(known)        # **d of a dictionary whose entries are known: the keyword arguments themselves
                    else:
                        kw["**"] = t
                else:
                    kw[k.arg] = t
            out.append((q, pos, kw))
        return out

    def _mark_from_whole(self, seq, base, q) -> None:
        """A list filled, unconditionally, inside an iteration that visits every element of a collection holds one entry per element:
        walking it afterwards visits every element as well."""
        nc = getattr(self, "_loop_nc", None)
        uncond = self.ctx.whole > 0 and bool(nc) and len(q.conds) == nc[-1]
        prev = getattr(base, "from_whole", True) if isinstance(base, Seq) and base.items else True
        seq.from_whole = bool(uncond and prev)

    def e_Call(self, e: ast.Call, p: Path):
        f = e.func
        # super().__init__(...) and friends: evaluate arguments only
        if isinstance(f, ast.Attribute) and isinstance(f.value, ast.Call) and isinstance(f.value.func, ast.Name) and f.value.func.id == "super":
            return [(q, Sym("super." + f.attr, tuple(pos))) for q, pos, kw in self.call_args(e, p)]
        out = []
        if isinstance(f, ast.Attribute) and f.attr in ("append", "add", "extend") and isinstance(f.value, ast.Name) and len(e.args) == 1 and not e.keywords:
            cur = p.env.get(f.value.id)
            if isinstance(cur, (Child, Coll)) and f.attr != "add" and self._is_fresh_copy(f.value.id, p):
                # ``xs = list(self.items)`` / ``[*self.items]`` / ``self.items.copy()``: a list of its own holding those elements
                cur = Seq([Sym("star", (cur,))])
                p.env[f.value.id] = cur
            if isinstance(cur, Seq) or (isinstance(cur, Sym) and cur.head in ("list[]", "call:set", "call:list")):
                for q, t in self.expr(e.args[0], p):
                    if q.status == "live":
                        base = q.env.get(f.value.id)
                        items = list(base.items) if isinstance(base, Seq) else []
                        if f.attr == "extend":
                            items.append(Sym("star", (t,)))
                        else:
                            items.append(t)
                        q.env[f.value.id] = Seq(items)
                        self._mark_from_whole(q.env[f.value.id], base, q)
                        # (paths are told apart by their events: a path that accumulated something differs from one that did not)
                        self.ev(q, "acc", text=f"{f.value.id}.{f.attr}", target=t, line=e.lineno)
                    out.append((q, Const(None)))
                return out
        if isinstance(f, ast.Attribute) and f.attr == "setdefault" and isinstance(f.value, ast.Name) and len(e.args) == 2 and not e.keywords \
                and isinstance(e.args[0], ast.Call) and isinstance(e.args[0].func, ast.Name) and e.args[0].func.id == "id" and len(e.args[0].args) == 1 \
                and ast.dump(e.args[0].args[0]) == ast.dump(e.args[1]):
            # ``seen.setdefault(id(x), x)`` on a dictionary of the function's own: the objects seen so far, each once (told apart by identity) —
            # as a collection of values it holds what a list filled with ``append(x)`` holds, without the repeats of the very same object
            cur = p.env.get(f.value.id)
            if (isinstance(cur, Sym) and cur.head == "dict{}" and not cur.args) or (isinstance(cur, Seq) and getattr(cur, "by_identity", False)):
                for q, t in self.expr(e.args[1], p):
                    if q.status == "live":
                        base = q.env.get(f.value.id)
                        items = list(base.items) if isinstance(base, Seq) else []
                        items.append(t)
                        ns = Seq(items)
                        ns.by_identity = True
                        q.env[f.value.id] = ns
                        self._mark_from_whole(ns, base, q)
                        self.ev(q, "acc", text=f"{f.value.id}.setdefault", target=t, line=e.lineno)
                    out.append((q, t))
                return out
        if isinstance(f, ast.Attribute) and f.attr == "values" and isinstance(f.value, ast.Name) and not e.args and not e.keywords:
            cur = p.env.get(f.value.id)
            if isinstance(cur, Seq) and getattr(cur, "by_identity", False):
                return [(p, cur)]
        if isinstance(f, ast.Attribute) and f.attr in ("pop", "popleft") and isinstance(f.value, ast.Name) and not e.keywords \
                and (not e.args or (len(e.args) == 1 and isinstance(e.args[0], ast.Constant) and e.args[0].value in (0, -1))):
            cur = p.env.get(f.value.id)
            if isinstance(cur, Seq) and cur.items and not any(isinstance(x, Sym) and x.head == "star" for x in cur.items):
                first = f.attr == "popleft" or (e.args and e.args[0].value == 0)
                items = list(cur.items)
                t = items.pop(0 if first else -1)
                p.env[f.value.id] = Seq(items)
                return [(p, t)]
        if isinstance(f, ast.Attribute) and f.attr == "update" and isinstance(f.value, ast.Name) and len(e.args) == 1 and not e.keywords:
            cur = p.env.get(f.value.id)
            if isinstance(cur, Sym) and cur.head in ("dict", "dict{}"):
                # d.update(x) on a dictionary built up locally: it now also holds x's entries
                for q, t in self.expr(e.args[0], p):
                    if q.status == "live":
                        base = q.env.get(f.value.id)
                        items = tuple(base.args) if isinstance(base, Sym) and base.head == "dict" else ()
                        more = tuple(t.args) if isinstance(t, Sym) and t.head == "dict" else (Sym("dstar", (t,)),)
                        q.env[f.value.id] = Sym("dict", items + more)
                    out.append((q, Const(None)))
                return out
        if isinstance(f, ast.Name) and f.id == "next" and f.id not in p.env and 1 <= len(e.args) <= 2 and not e.keywords \
                and isinstance(e.args[0], ast.GeneratorExp) and len(e.args[0].generators) == 1:
            r_ = self.first_match(e, p)
            if r_ is not None:
                return r_
        for q, callee in self.expr(f, p):
            if q.status != "live":
                out.append((q, Opaque("dead")))
                continue
            for q2, pos, kw in self.call_args(e, q):
                if q2.status != "live":
                    out.append((q2, Opaque("dead")))
                    continue
                out.extend(self.call_term(callee, pos, kw, q2, e))
        return out

    @staticmethod
    def _is_fresh_copy(name: str, p: Path) -> bool:
        """The local was bound to a new list made from an iterable (not to the iterable itself)."""
        src = p.src.get(name)
        if not src:
            return False
        v = src[1]
        if isinstance(v, ast.Call) and isinstance(v.func, ast.Name) and v.func.id == "list" and len(v.args) == 1 and not v.keywords:
            return True
        if isinstance(v, ast.Call) and isinstance(v.func, ast.Attribute) and v.func.attr == "copy" and not v.args:
            return True
        if isinstance(v, ast.List) and len(v.elts) == 1 and isinstance(v.elts[0], ast.Starred):
            return True
        return False

    def first_match(self, e: ast.Call, p: Path):
        """``next((elt for x in <known sequence> if cond), default)``: the first item that passes, lazily —
        item k+1 is only tested on the paths where items 1..k failed; the default (or StopIteration) when none does."""
        ge = e.args[0]
        g = ge.generators[0]
        it = self.peek(g.iter, p)
        if it is None and isinstance(g.iter, (ast.Name, ast.Attribute)):
            r0 = self.expr(g.iter, p.fork())
            it = r0[0][1] if len(r0) == 1 and r0[0][0].status == "live" and len(r0[0][0].events) == len(p.events) else None
        if not (isinstance(it, Seq) and 0 < len(it.items) <= 6 and not any(isinstance(x, Sym) and x.head == "star" for x in it.items)):
            return None
        saved = dict(p.env)
        out = []
        cur = [p]
        for item in it.items:
            nxt = []
            for q in cur:
                self.assign(g.target, item, q, e)
                conds = [(q, True)]
                for c in g.ifs:
                    conds = [(q3, v3) for q2, v2 in conds for q3, v3 in (self.branch(c, q2) if v2 is True else [(q2, v2)])]
                for q2, v2 in conds:
                    if v2 is None:
                        out.append((q2, Opaque("dead")))
                    elif v2:
                        out.extend(self.expr(ge.elt, q2))
                    else:
                        nxt.append(q2)
            cur = nxt
        for q in cur:
            if len(e.args) == 2:
                out.extend(self.expr(e.args[1], q))
            else:
                q.status = "raise"
                q.exc = ("StopIteration", "none", e.lineno)
                self.ev(q, "raise", text="StopIteration", line=e.lineno, target=Sym("new:StopIteration"), args=(Sym("none"),))
                out.append((q, Opaque("raised")))
        for q, _ in out:
            for k in list(q.env):
                if k not in saved and not k.startswith("self."):
                    del q.env[k]
        return out

    def record_fields(self, t: Term) -> Optional[List[Tuple[str, Term]]]:
        """(field, value) pairs, in declaration order, of a private ``NamedTuple`` record built by the analysed code with every field known."""
        if not (isinstance(t, Sym) and t.head.startswith("new:")):
            return None
        ci = self.plain_class(t)
        if ci is None or ci.find_method("__init__") is not None or "NamedTuple" not in [b.split(".")[-1] for b in ci.external_bases()]:
            return None
        names = [st.target.id for st in ci.node.body if isinstance(st, ast.AnnAssign) and isinstance(st.target, ast.Name)]
        out = []
        for n_ in names:
            v = self.record_field(ci, t, n_)
            if v is None:
                return None
            out.append((n_, v))
        return out

    def call_term(self, callee: Term, pos: List[Term], kw: Dict[str, Term], p: Path, node: ast.Call):
        line = node.lineno
        if isinstance(callee, Fn):
            return self.call_fn(callee, pos, kw, p, node)
        if isinstance(callee, Sym) and callee.head == "attr:_replace" and len(callee.args) == 1 and not pos and "**" not in kw:
            # ``record._replace(field=value)``: the same record with those fields exchanged
            flds = self.record_fields(callee.args[0])
            if flds is not None and all(k in dict(flds) for k in kw):
                return [(p, Sym(callee.args[0].head, tuple(kw.get(n_, v_) for n_, v_ in flds)))]
        if isinstance(callee, Bound):
            name = callee.name
            if name == "values" and not pos:
                tv = callee.target
                if isinstance(tv, Child) and getattr(tv, "mapping", False):
                    tv2 = Child(tv.path)
                    for a_ in ("kind", "index", "args"):
                        if hasattr(tv, a_):
                            setattr(tv2, a_, getattr(tv, a_))
                    tv = tv2         # the values view: iterating it yields the elements, not the keys
                return [(p, tv)]
            if name in ("items", "keys", "values") and not pos and display_items(callee.target) is not None:
                # a dictionary display with distinct constant keys: its views are exact sequences, in display order
                its = display_items(callee.target)
                return [(p, Seq([Seq([k_, v_]) if name == "items" else (k_ if name == "keys" else v_) for k_, v_ in its]))]
            if name == "items" and not pos:
                return [(p, Sym("call:items", (callee.target,)))]
            if name in XOPS:
                return self.apply_op(name, callee.target, pos, kw, p, node)
            if name in ("apply", "bind", "__rshift__") and pos:
                ci = self.repo.cls("Apply" if name != "bind" else "Bind")
                return [(p, New(ci, {"evaluatable": callee.target, "func": strip_ensure(pos[0])}, line))]
            self.ev(p, "call", text=name, target=callee.target, args=tuple(pos), line=line)
            return [(p, Sym("call:" + name, (callee.target, *pos)))]
        if isinstance(callee, New):
            return self.apply_op("evaluate", callee, pos, kw, p, node)
        if isinstance(callee, Child):
            if callee is self.selfterm or callee.key() == SELF.key():
                if self.cls is not None and any("type" in c.external_bases() for c in self.cls.mro()) and self.selfattrs is None:
                    r = self.instantiate_dataset_class(pos, kw, p, node)
                    if r is not None:
                        return r
                return self.apply_op("evaluate", callee, pos, kw, p, node)
            kind = getattr(callee, "kind", "other")
            if kind in ("node", "nodes"):
                return self.apply_op("evaluate", callee, pos, kw, p, node)
            if kind == "callable-node":
                c = Child(callee.path + "()")
                c.kind = "node"
                c.args = tuple(pos)
                self.ev(p, "call", text=callee.path, target=callee, args=tuple(pos), line=line)
                return [(p, c)]
            # method of a child whose class we do not model (``item.build``)
            c = Child(callee.path + "()")
            c.kind = "node" if "." in callee.path else "other"
            self.ev(p, "call", text=callee.path, target=callee, args=tuple(pos), line=line)
            return [(p, c)]
        if isinstance(callee, Val):
            kws = tuple(Sym("kw:" + k, (v,)) for k, v in sorted(kw.items()))
            self.ev(p, "call", text="<value>", target=callee, args=tuple(pos) + kws, line=line)
            return [(p, Sym("valuecall", (callee, *pos) + kws))]
        if isinstance(callee, Sym):
            if callee.head == "class":
                ci = self.repo.classes.get(callee.text)
                if ci is not None:
                    return self.construct(ci, pos, kw, p, node)
            if callee.head == "methodcaller" and len(pos) == 1 and not kw and callee.args:
                # operator.methodcaller(name, *a, **k)(x) is x.name(*a, **k)
                margs = [a for a in callee.args[1:] if not (isinstance(a, Sym) and a.head.startswith("kw:"))]
                mkw = {a.head[3:]: a.args[0] for a in callee.args[1:] if isinstance(a, Sym) and a.head.startswith("kw:")}
                out = []
                for q, bt in self.call_external(Sym("name", text="getattr"), [pos[0], callee.args[0]], {}, p, node):
                    out.extend(self.call_term(bt, margs, mkw, q, node) if q.status == "live" else [(q, Opaque("dead"))])
                return out
            if callee.head == "partial" and callee.args:
                pre_pos = [a for a in callee.args[1:] if not (isinstance(a, Sym) and a.head.startswith("kw:"))]
                pre_kw = {a.head[3:]: a.args[0] for a in callee.args[1:] if isinstance(a, Sym) and a.head.startswith("kw:")}
                return self.call_term(callee.args[0], pre_pos + list(pos), {**pre_kw, **kw}, p, node)
            if callee.head == "attrgetter" and len(pos) == 1 and not kw and len(callee.args) == 1:
                return self.call_external(Sym("name", text="getattr"), [pos[0], callee.args[0]], {}, p, node)
            return self.call_external(callee, pos, kw, p, node)
        self.ev(p, "call", text=callee.key()[:60], target=callee, args=tuple(pos), line=line)
        return [(p, Sym("call", (callee, *pos)))]

    def call_external(self, callee: Sym, pos, kw, p: Path, node):
        name = callee.text if callee.text else callee.head
        short = name.split(".")[-1]
        line = node.lineno
        if callee.head.startswith("attr:") and callee.args:
            mname = callee.head[5:]
            recv = callee.args[0]
            if mname == "format" and isinstance(recv, Const) and isinstance(recv.v, str) and not kw:
                # "…{}…".format(a, b) is the f-string with the same pieces
                import re as _re
                pieces = _re.split(r"(\{\d*\})", recv.v)
                holes = [x for x in pieces if _re.fullmatch(r"\{\d*\}", x)]
                if holes and "{" not in "".join(x for x in pieces if x not in holes) and len(holes) == len(pos) and (all(h == "{}" for h in holes) or [h for h in holes] == ["{%d}" % i for i in range(len(pos))]):
                    items, k_ = [], 0
                    for x in pieces:
                        if x in holes and _re.fullmatch(r"\{\d*\}", x):
                            items.append(pos[k_])
                            k_ += 1
                        elif x:
                            items.append(Const(x))
                    if all(isinstance(i_, Const) and isinstance(i_.v, str) for i_ in items):
                        return [(p, Const("".join(i_.v for i_ in items)))]
                    return [(p, Sym("fstr", tuple(items)))]
            rc = getattr(self.ctx, "sym_self_cls", None)
            if rc is not None and isinstance(recv, Sym) and recv.head == "self" and not recv.args and mname not in self.ctx.no_inline and mname not in XOPS:
                # a method of a plain (non-node) class analysed with a symbolic self: inline its private methods
                r = rc.find_method(mname)
                if r is not None and not any(ast.unparse(d) in ("property", "classmethod") for d in r[1].decorator_list):
                    owner, fn = r
                    static = any(ast.unparse(d) == "staticmethod" for d in fn.decorator_list)
                    bound = self.bind_params(fn, not static, pos, kw, owner.module)
                    first = [a.arg for a in fn.args.posonlyargs + fn.args.args][:1]
                    if first and not static:
                        bound[first[0]] = recv
                    return self.inline(owner.module, None, fn, None, None, bound, p, node)
            pc = self.plain_class(recv)
            if pc is not None and mname not in self.ctx.no_inline:
                r = pc.find_method(mname)
                if r is not None and not any(ast.unparse(d) in ("property", "classmethod", "staticmethod") for d in r[1].decorator_list) \
                        and not any(isinstance(x, Sym) and x.head == "star" for x in pos) and "**" not in kw:
                    owner, fn = r
                    bound = self.bind_params(fn, True, pos, kw, owner.module)
                    first = [a.arg for a in fn.args.posonlyargs + fn.args.args][:1]
                    if first:
                        bound[first[0]] = recv
                    return self.inline(owner.module, None, fn, None, None, bound, p, node)
            kws = tuple(Sym("kw:" + k, (v,)) for k, v in sorted(kw.items()))
            self.ev(p, "call", text=mname, target=recv, args=tuple(pos) + kws, line=line)
            if mname == "acquire" and not kw:
                p.locks = p.locks + (recv.key(),)
            elif mname == "release" and not pos and not kw and recv.key() in p.locks:
                i_ = len(p.locks) - 1 - p.locks[::-1].index(recv.key())
                p.locks = p.locks[:i_] + p.locks[i_ + 1:]
            return [(p, Sym("call:" + mname, (recv,) + tuple(pos) + kws))]
        if short == "getattr" and len(pos) >= 2:
            tgt, nm = pos[0], pos[1]
            if isinstance(nm, Const) and isinstance(nm.v, str):
                if is_node(tgt) or isinstance(tgt, Coll):
                    if nm.v in XOPS:
                        return [(p, Bound(tgt, nm.v))]
                    if isinstance(tgt, New):
                        return self.get_attr(tgt, nm.v, p, node)
                    if tgt is self.selfterm and self.selfterm is not None:
                        return self.self_attr(nm.v, p, node)         # getattr(self, "name") is self.name
                    if isinstance(tgt, Child) and tgt.key() == SELF.key() and getattr(self.ctx, "root_cls", None) is not None:
                        return self.get_attr(tgt, nm.v, p, node)
                    return [(p, Child(f"{tgt.path}.{nm.v}"))]
                return [(p, Sym(f"attr:{nm.v}", (tgt,)))]
            if tgt is self.selfterm or (isinstance(tgt, Sym) and tgt.head == "classof") or tgt.key() in (SELF.key(), "Child(<instance>)"):
                c = Child("<members>[*]")
                c.kind = "node"
                return [(p, c)]
            return [(p, Sym("getattr", tuple(pos)))]
        if short == "set_dotted_key" and len(pos) == 3 and not kw and getattr(node, "args", None) and isinstance(node.args[2], ast.Name):
            # confectioner.set_dotted_key(key, value, d) on a dictionary built up locally: d now holds key -> value (nested)
            cur = p.env.get(node.args[2].id)
            if isinstance(cur, Sym) and (cur.head in ("dict{}", "dict") or (cur.head in ("call:dict", "call:copy") and len(cur.args) <= 1)):
                base = cur.args if cur.head == "dict" else (tuple(Sym("dstar", (a_,)) for a_ in cur.args))
                p.env[node.args[2].id] = Sym("dict", tuple(base) + (Sym("dotted-item", (pos[0], pos[1])),))
            self.ev(p, "call", text=name, args=tuple(pos), line=line)
            return [(p, Const(None))]
        if short == "setattr" and len(pos) == 3 and not kw:
            obj, nm, val = pos
            src = ast.unparse(node.args[0]) if getattr(node, "args", None) else "?"
            if isinstance(nm, Const) and isinstance(nm.v, str):
                if obj is self.selfterm:
                    p.env[f"self.{nm.v}"] = val
                self.ev(p, "store", text=f"{src}.{nm.v}", target=val, line=line, op=self.fname, args=(obj, nm))
            else:
                self.ev(p, "store", text=f"setattr({src}, …)", target=val, line=line, op=self.fname, args=(obj, nm))
            return [(p, Const(None))]
        r_ = self.higher_order(name, short, pos, kw, p, node)
        if r_ is not None:
            return r_
        if name == "dict" and not kw and len(pos) == 1 and isinstance(pos[0], Sym) and pos[0].head == "call:zip" and len(pos[0].args) == 2:
            ks, vs = iter_elems(pos[0].args[0]), iter_elems(pos[0].args[1])
            if len(ks) == 1 and len(vs) == 1:
                d_ = Coll(vs[0], ks[0])
                d_.kind = "dict"
                return [(p, d_)]
        if name == "dict" and kw and "**" not in kw and len(pos) <= 1:
            base = ()
            if pos:
                base = pos[0].args if isinstance(pos[0], Sym) and pos[0].head == "dict" else (Sym("dstar", (pos[0],)),)
            return [(p, Sym("dict", tuple(base) + tuple(Sym("item", (Const(k), v)) for k, v in kw.items())))]
        if (name in ("typing.cast", "typing_extensions.cast") or (short == "cast" and callee.head == "ext")) and len(pos) == 2 and not kw:
            return [(p, pos[1])]        # cast(T, x) is x
        if name in ("copy.deepcopy", "copy.copy") and len(pos) == 1 and not kw and (
                isinstance(pos[0], (Const, Fn)) or (isinstance(pos[0], Sym) and pos[0].head in ("name", "ext", "class") and not pos[0].args)):
            return [(p, pos[0])]        # functions, classes and constants are copied as themselves
        if name == "functools.update_wrapper" and pos:
            # update_wrapper(wrapper, wrapped, …) hands the wrapper back (what it copies is judged by R-UW)
            self.ev(p, "call", text=name, args=tuple(pos) + tuple(Sym("kw:" + k, (v,)) for k, v in sorted(kw.items())), line=line)
            return [(p, pos[0])]
        if short in ("tuple", "list", "set", "frozenset", "iter") and len(pos) == 1 and not kw:
            t = pos[0]
            if isinstance(t, (Coll, Child, Seq)):
                if getattr(self.ctx, "track_conversions", False) and short != "iter":
                    self.ev(p, "call", text="conv:" + short, args=(t,), line=line)      # which builtin gathered the elements
                return [(p, t)]
            return [(p, Sym(short, (t,)))]
        if short in ("all", "any") and len(pos) == 1 and not kw and isinstance(pos[0], Coll) and getattr(pos[0], "kind", "") in ("list", "set", "dict") \
                and (name in ("all", "any", "builtins.all", "builtins.any")):
            # all()/any() stop at the first deciding element of a generator; handed a list / set comprehension, every element has been
            # computed (and every predicate called) before they look at the first
            self.ev(p, "call", text=name, args=tuple(pos), line=line)
            return [(p, Sym("call:" + name, (Sym("eager", (pos[0],)),)))]
        if short == "reversed" and len(pos) == 1 and not kw and isinstance(pos[0], Seq) and not any(isinstance(x, Sym) and x.head == "star" for x in pos[0].items):
            return [(p, Seq(list(reversed(pos[0].items))))]        # a display whose items are known, walked backwards
        if short in ("sorted", "reversed") and pos:
            return [(p, Sym("reordered:" + short, (pos[0],) + tuple(Sym("kw:" + k, (v,)) for k, v in sorted(kw.items()))))]
        if name in ("functools.partial",) or short == "partial" and callee.head == "ext":
            if pos and isinstance(pos[0], Fn):
                f0 = pos[0]
                nf = Fn(f0.kind, f0.owner, f0.node, {**f0.bound, **{k: v for k, v in kw.items() if k != "**"}}, f0.frame, f0.pos + tuple(pos[1:]))
                return [(p, nf)]
            if pos and isinstance(pos[0], Sym) and pos[0].head in ("ext", "name", "class", "partial") and "**" not in kw:
                # partial(f, *a, **k) of a function defined elsewhere: calling it calls f with the arguments joined
                return [(p, Sym("partial", (pos[0],) + tuple(pos[1:]) + tuple(Sym("kw:" + k, (v,)) for k, v in kw.items())))]
        if short == "vars" and name in ("vars", "builtins.vars") and len(pos) == 1 and not kw:
            return self.get_attr(pos[0], "__dict__", p, node) if not (pos[0] is self.selfterm and self.selfterm is not None) else self.self_attr("__dict__", p, node)
        if short in ("isinstance", "callable", "hasattr", "len", "str", "repr", "bool", "id", "type", "dir", "print"):
            return [(p, Sym("call:" + short, tuple(pos)))]
        if callee.args and not callee.text:
            # calling the result of a symbolic expression (e.g. getattr(obj, name)(...))
            kws = tuple(Sym("kw:" + k, (v,)) for k, v in sorted(kw.items()))
            self.ev(p, "call", text=name, target=callee, args=tuple(pos) + kws, line=line)
            return [(p, Sym("callres", (callee,) + tuple(pos) + kws))]
        if kw and name.startswith("confectioner.") and "**" not in kw:
            # keyword arguments of the library's own dependency are put in their positional places (signatures read from its source)
            sig = _confectioner_signature(short)
            if sig is not None and all(k in sig for k in kw) and set(sig[len(pos):len(pos) + len(kw)]) == set(kw):
                pos = list(pos) + [kw[k] for k in sig[len(pos):len(pos) + len(kw)]]
                kw = {}
        self.ev(p, "call", text=name, args=tuple(pos) + tuple(Sym("kw:" + k, (v,)) for k, v in kw.items()), line=line)
        return [(p, Sym("call:" + name, tuple(pos) + tuple(Sym("kw:" + k, (v,)) for k, v in sorted(kw.items()))))]

    _OPERATOR_BIN = {"or_": "BitOr", "and_": "BitAnd", "xor": "BitXor", "add": "Add", "sub": "Sub", "mul": "Mult",
                     "truediv": "Div", "floordiv": "FloorDiv", "mod": "Mod", "pow": "Pow", "matmul": "MatMult",
                     "rshift": "RShift", "lshift": "LShift", "concat": "Add",
                     "__or__": "BitOr", "__and__": "BitAnd", "__add__": "Add", "__rshift__": "RShift"}
    _OPERATOR_CMP = {"eq": "Eq", "ne": "NotEq", "lt": "Lt", "le": "LtE", "gt": "Gt", "ge": "GtE", "is_": "Is", "is_not": "IsNot"}

    def synth_expr(self, src: str, binds: Dict[str, Term], p: Path, node) -> List[Tuple[Path, Term]]:
        """Evaluate the expression ``src`` (whose free names are the keys of ``binds``) in place of the call
        ``node``: the library call it stands for is, by definition, that expression."""
        n_ = self.ctx.__dict__.setdefault("synth_n", 0)
        self.ctx.synth_n = n_ + 1
        ren = {k: f"{k}${n_}" for k in binds}
        tree = ast.parse(src, mode="eval").body
        for x in ast.walk(tree):
            if isinstance(x, ast.Name) and x.id in ren:
                x.id = ren[x.id]
            if isinstance(x, ast.arg) and x.arg in ren:
                x.arg = ren[x.arg]
            for a_ in ("lineno", "end_lineno"):
                setattr(x, a_, getattr(node, "lineno", 0))
            for a_ in ("col_offset", "end_col_offset"):
                setattr(x, a_, getattr(node, "col_offset", 0))
        for k, v in binds.items():
            p.env[ren[k]] = v
        res = self.expr(tree, p)
        for q, _ in res:
            for k in ren.values():
                q.env.pop(k, None)
        return res

    def synth_block(self, src: str, binds: Dict[str, Term], result: str, p: Path, node) -> List[Tuple[Path, Term]]:
        """Run the statements ``src`` in place of the call ``node``; the call's value is the local ``result``."""
        n_ = self.ctx.__dict__.setdefault("synth_n", 0)
        self.ctx.synth_n = n_ + 1
        names = set(binds) | {result}
        tree = ast.parse(src)
        for x in ast.walk(tree):
            if isinstance(x, ast.Name) and (x.id in names or x.id.startswith("_s_")):
                x.id = f"{x.id}${n_}"
            for a_ in ("lineno", "end_lineno"):
                setattr(x, a_, getattr(node, "lineno", 0))
            for a_ in ("col_offset", "end_col_offset"):
                setattr(x, a_, getattr(node, "col_offset", 0))
        for k, v in binds.items():
            p.env[f"{k}${n_}"] = v
        out = []
        for q in self.block(tree.body, [p]):
            t = q.env.get(f"{result}${n_}", Opaque("dead"))
            for k in [k for k in q.env if k.endswith(f"${n_}")]:
                q.env.pop(k, None)
            out.append((q, t))
        return out

    def higher_order(self, name: str, short: str, pos, kw, p: Path, node):
        """Library functions that only apply their function argument: ``map``, ``filter``, ``functools.reduce``,
        ``itertools.chain``, the ``operator`` module.  Each is replaced by the plain expression it is defined as."""
        mod = name.rsplit(".", 1)[0] if "." in name else ""
        if mod in ("operator", "_operator") or (not mod and short in ("methodcaller", "attrgetter", "itemgetter")):
            if short == "methodcaller" and pos:
                return [(p, Sym("methodcaller", tuple(pos) + tuple(Sym("kw:" + k, (v,)) for k, v in sorted(kw.items()))))]
            if short == "attrgetter" and len(pos) == 1 and isinstance(pos[0], Const) and "." not in str(pos[0].v):
                return [(p, Sym("attrgetter", (pos[0],)))]
            if short in self._OPERATOR_BIN and len(pos) == 2 and not kw:
                return [(p, Sym("binop:" + self._OPERATOR_BIN[short], (pos[0], pos[1])))]
            if short in self._OPERATOR_CMP and len(pos) == 2 and not kw:
                return [(p, Sym("cmp:" + self._OPERATOR_CMP[short], (pos[0], pos[1])))]
            if short == "contains" and len(pos) == 2 and not kw:
                return [(p, Sym("cmp:In", (pos[1], pos[0])))]
            if short == "not_" and len(pos) == 1:
                return [(p, Sym("unop:Not", (pos[0],)))]
            if short == "getitem" and len(pos) == 2 and not kw:
                return self.synth_expr("a[b]", {"a": pos[0], "b": pos[1]}, p, node)
            if short == "call" and pos:
                return self.call_term(pos[0], list(pos[1:]), kw, p, node)
            return None
        if kw:
            return None
        if short in ("map", "starmap", "filter", "reduce") and pos and not (isinstance(pos[0], (Fn, Bound, Const)) or (isinstance(pos[0], Sym) and (
                pos[0].head in ("methodcaller", "attrgetter", "ext", "name", "class", "partial") or (pos[0].head.startswith("attr:") and pos[0].args and isinstance(pos[0].args[0], Const))))):
            return None         # the function applied is itself unknown: nothing to unfold
        if short == "map" and mod in ("", "builtins") and len(pos) == 2:
            return self.synth_expr("(f(x) for x in xs)", {"f": pos[0], "xs": pos[1]}, p, node)
        if short == "map" and mod in ("", "builtins") and len(pos) == 3:
            return self.synth_expr("(f(x, y) for x, y in zip(xs, ys))", {"f": pos[0], "xs": pos[1], "ys": pos[2]}, p, node)
        if short == "starmap" and mod == "itertools" and len(pos) == 2:
            return self.synth_expr("(f(*x) for x in xs)", {"f": pos[0], "xs": pos[1]}, p, node)
        if short == "filter" and mod in ("", "builtins") and len(pos) == 2:
            if isinstance(pos[0], Const) and pos[0].v is None:
                return self.synth_expr("(x for x in xs if x)", {"xs": pos[1]}, p, node)
            return self.synth_expr("(x for x in xs if f(x))", {"f": pos[0], "xs": pos[1]}, p, node)
        if short == "reduce" and mod in ("functools", "_functools") and len(pos) in (2, 3):
            f, xs = pos[0], pos[1]
            if isinstance(xs, Seq) and not any(isinstance(x, Sym) and x.head == "star" for x in xs.items) and (xs.items or len(pos) == 3):
                items = list(xs.items)
                cur = [(p, pos[2] if len(pos) == 3 else items.pop(0))]
                for it in items:
                    nxt = []
                    for q, acc in cur:
                        nxt.extend(self.call_term(f, [acc, it], {}, q, node) if q.status == "live" else [(q, acc)])
                    cur = nxt
                return cur
            init = pos[2] if len(pos) == 3 else Sym("first", (xs,))
            return self.synth_block("acc = init\nfor _s_x in xs:\n    acc = f(acc, _s_x)\n", {"f": f, "xs": xs, "init": init}, "acc", p, node)
        if short == "sum" and mod in ("", "builtins") and len(pos) == 2 and isinstance(pos[0], Seq) and isinstance(pos[1], (New, Child)) \
                and not any(isinstance(x, Sym) and x.head == "star" for x in pos[0].items):
            # sum([a, b, c], start) over node terms is ((start + a) + b) + c
            acc = pos[1]
            for it in pos[0].items:
                acc = Sym("binop:Add", (acc, it))
            return [(p, acc)]
        if name == "itertools.islice" and len(pos) == 2 and isinstance(pos[0], (Coll, Child)):
            src = pos[0]
            t2 = Coll(src.elem, src.keyterm) if isinstance(src, Coll) else Child(src.path)
            for a_ in ("kind", "index", "mapping"):
                if hasattr(src, a_):
                    setattr(t2, a_, getattr(src, a_))
            t2.partial = True          # the first n elements
            t2.prefix = pos[1]
            return [(p, t2)]
        if mod == "itertools.chain" and short == "from_iterable" and len(pos) == 1:
            return self.synth_expr("(y for x in xs for y in x)", {"xs": pos[0]}, p, node)
        if name == "itertools.chain" and pos:
            return [(p, Seq([Sym("star", (t,)) for t in pos]))]
        return None

    # ---------------------------------------------------------------- ops
    def apply_op(self, op: str, target: Term, pos: List[Term], kw: Dict[str, Term], p: Path, node):
        line = getattr(node, "lineno", 0)
        if op == "transform":
            opts = pos[1] if len(pos) > 1 else kw.get("options", Const(None))
        else:
            opts = pos[0] if pos else kw.get("options")
        if isinstance(target, Child) and op == "keys" and opts is None:
            # dict.keys() of a mapping attribute, not a node op
            return [(p, Sym("dictkeys", (target,)))]
        if isinstance(target, Child) and getattr(target, "kind", "") == "other" and opts is None:
            return [(p, Sym("call:" + op, (target,)))]
        if isinstance(target, New):
            r = target.cls.find_method(op)
            tag = (target.cls.qualname, op)
            if r is None or r[0].name in ("Evaluatable", "Cacheable", "Validatable", "Explainable", "Transformation"):
                self.ev(p, "op", op=op, target=target, opts=opts, line=line)
                return [(p, Val(op, target))]
            tkey = (tag[0], tag[1], target.key())
            seen_terms = self.ctx.__dict__.setdefault("unfolding_terms", [])
            outer_objs = self.ctx.__dict__.setdefault("unfolding_objs", [])
            if _has_child_leaf(target):
                limit = 4
            elif any(_is_subterm(target, o) for o in outer_objs):
                limit = 4  # structural descent into a field of a term being unfolded terminates
            else:
                limit = 1
            if self.ctx.unfolding.count(tag) >= limit or tkey in seen_terms or self.depth >= self.ctx.max_depth:
                e = self.ev(p, "op", op=op, target=target, opts=opts, line=line)
                e.text = "atomic"
                return [(p, Val(op, target))]
            owner, fn = r
            self.ev(p, "unfold", op=op, target=target, opts=opts, line=line)
            self.ctx.unfolding.append(tag)
            seen_terms.append(tkey)
            outer_objs.append(target)
            try:
                res_ = self.inline(owner.module, target.cls, fn, target, target.attrs,
                                   self.bind_params(fn, True, pos, kw, owner.module), p, node,
                                   via=self.via + (target.cls.name,), prebound=True)
            finally:
                self.ctx.unfolding.pop()
                seen_terms.pop()
                outer_objs.pop()
            if self.ctx.unroll >= 2 and not _has_child_leaf(target) and len(res_) > 2:
                # deep unrolling: a node that mentions no child of the analysed object
                # contributes only its outcome (value or failure), one representative each
                keep = {}
                for q_, t_ in res_:
                    k_ = (q_.status, q_.exc[0] if q_.exc else None)
                    keep.setdefault(k_, (q_, t_))
                res_ = list(keep.values())
            return res_
        scls = self.cls if (target is self.selfterm and self.cls is not None) else None
        if scls is None and isinstance(target, Child) and target.key() == SELF.key() and self.selfterm is not target:
            # the analysed object handed to a plain helper function (``_call_evaluated(self, value, options)``): an operation
            # on it there is the object's own operation
            scls = getattr(self.ctx, "root_cls", None)
        if scls is not None and isinstance(target, Child) and op in OPS:
            r = scls.find_method(op)
            tag = (scls.qualname, op)
            if r is not None and tag not in self.ctx.unfolding and self.depth < self.ctx.max_depth and r[0].name not in ("Evaluatable", "Cacheable", "Validatable", "Explainable"):
                owner, fn = r
                self.ctx.unfolding.append(tag)
                try:
                    e = self.ev(p, "selfop", op=op, target=target, opts=opts, line=line)
                    return self.inline(owner.module, scls, fn, target, None,
                                       self.bind_params(fn, True, pos, kw, owner.module), p, node,
                                       via=self.via + (f"<self>.{op}",))
                finally:
                    self.ctx.unfolding.pop()
        if isinstance(target, Fn):
            # op on a callable term: not a node
            self.ev(p, "call", text=f"{op} on {target.key()}", line=line)
            return [(p, Opaque("op-on-fn"))]
        if isinstance(target, (Opaque,)) or (isinstance(target, Sym) and not target.head.startswith("oneof")):
            self.ctx.note(f"{op} applied to unresolved term {target.key()[:60]} in {self.fname}")
        e = self.ev(p, "op", op=op, target=target, opts=opts, line=line)
        if op == "transform":
            e.args = tuple(pos[:1])
        return [(p, Val(op, target))]

    # ------------------------------------------------------------ inlining
    def bind_params(self, fn, is_method: bool, pos: List[Term], kw: Dict[str, Term], module: Module,
                    pre_pos: Tuple[Term, ...] = (), pre_kw: Optional[Dict[str, Term]] = None) -> Dict[str, Term]:
        a = fn.args
        params = [x.arg for x in a.posonlyargs + a.args]
        if is_method and params:
            params = params[1:]
        allpos = list(pre_pos) + list(pos)
        bound: Dict[str, Term] = {}
        # flatten a lone star argument into the vararg
        star_only = None
        flat: List[Term] = []
        for t in allpos:
            if isinstance(t, Sym) and t.head == "star":
                inner = t.args[0]
                if isinstance(inner, Seq):
                    flat.extend(inner.items)
                else:
                    star_only = inner
                    flat.append(t)
            else:
                flat.append(t)
        i = 0
        for name in params:
            if i < len(flat) and not (isinstance(flat[i], Sym) and flat[i].head == "star"):
                bound[name] = flat[i]
                i += 1
            else:
                break
        rest = flat[i:]
        if a.vararg is not None:
            if len(rest) == 1 and isinstance(rest[0], Sym) and rest[0].head == "star":
                inner = rest[0].args[0]
                bound[a.vararg.arg] = inner if isinstance(inner, (Coll, Child, Seq)) else Coll(Sym("elem", (inner,)))
            elif any(isinstance(r, Sym) and r.head == "star" for r in rest):
                items = []
                for r in rest:
                    if isinstance(r, Sym) and r.head == "star":
                        els = iter_elems(r.args[0])
                        items.extend(els)
                    else:
                        items.append(r)
                bound[a.vararg.arg] = Seq(items)
            else:
                bound[a.vararg.arg] = Seq(rest)
        allkw = dict(pre_kw or {})
        allkw.update(kw)
        kwonly = [x.arg for x in a.kwonlyargs]
        extra = {}
        for k, v in allkw.items():
            if k == "**":
                extra["**"] = v
            elif k in params or k in kwonly:
                bound[k] = v
            else:
                extra[k] = v
        if a.kwarg is not None:
            if set(extra) == {"**"}:
                bound[a.kwarg.arg] = extra["**"]
            else:
                bound[a.kwarg.arg] = Sym("dict", tuple(Sym("dstar", (v,)) if k == "**" else Sym("item", (Const(k), v)) for k, v in extra.items()))
        # defaults
        n_def = len(a.defaults)
        pos_params = [x.arg for x in a.posonlyargs + a.args]
        for name, d in zip(pos_params[len(pos_params) - n_def:], a.defaults):
            if name not in bound and not (is_method and name == pos_params[0]):
                bound[name] = self.default_term(d, module)
        for x, d in zip(a.kwonlyargs, a.kw_defaults):
            if x.arg not in bound and d is not None:
                bound[x.arg] = self.default_term(d, module)
        for name in params + kwonly:
            bound.setdefault(name, Opaque(f"param:{name}"))
        return bound

    def default_term(self, d: ast.expr, module: Module) -> Term:
        if isinstance(d, ast.Constant):
            return Const(d.value)
        if isinstance(d, ast.Name) and d.id == "MISSING":
            return Const(MISSING)
        if isinstance(d, ast.Name) and d.id.startswith("_"):
            # a private module-level marker as default (``extra=_UNCHANGED``): the marker itself
            r = self.repo.resolve_name(module, d.id)
            if r and r[0] == "var" and isinstance(r[1], ast.Call) and isinstance(r[1].func, ast.Name) and r[1].func.id == "object" and not r[1].args:
                return Sym("global", text=f"{r[2].name}.{d.id}")
        return Sym("default", text=ast.unparse(d)[:40])

    def inline(self, module: Module, owner: Optional[ClassInfo], fn, selfterm, selfattrs,
               bound: Dict[str, Term], p: Path, node, via=None, prebound=False):
        if self.depth >= self.ctx.max_depth:
            self.ctx.note(f"depth cap at {getattr(fn, 'name', '<lambda>')} from {self.fname}")
            self.ev(p, "call", text="<depth-cap>", line=getattr(node, "lineno", 0))
            return [(p, Opaque("depth-cap"))]
        self.ctx.inlined += 1
        if not hasattr(self.ctx, "call_stack"):
            self.ctx.call_stack = []
        plain = selfattrs is None and not isinstance(selfterm, New)
        # a plain helper is on the stack again: with the very arguments it is already working on this is recursion (not unfolded again);
        # with other arguments it is a second, nested use (a shared ``validate_each(members, options)`` called for an Iter inside an Iter)
        akey = tuple(v.key() if isinstance(v, Term) else "" for v in bound.values())
        on_stack = [k_ for f_, k_ in self.ctx.call_stack if f_ == id(fn)]
        self_rec = getattr(fn, "_sa_self_recursive", None)
        if self_rec is None and not isinstance(fn, ast.Lambda):
            # a function that calls itself (by name, or as a method of the same name) recurses over its data: never unfolded twice
            self_rec = any(isinstance(c_, ast.Call) and ((isinstance(c_.func, ast.Name) and c_.func.id == fn.name) or (isinstance(c_.func, ast.Attribute) and c_.func.attr == fn.name))
                           for c_ in ast.walk(fn))
            try:
                fn._sa_self_recursive = self_rec
            except Exception:
                pass
        if not isinstance(fn, ast.Lambda) and on_stack and ((plain and (self_rec or akey in on_stack or len(on_stack) >= 3)) or (self_rec and len(on_stack) >= 1 and not plain
                                                                                                                                        and getattr(fn, "name", "") not in XOPS)):
            # plain (non-node) recursion: do not unfold again
            args_ = tuple(v for v in bound.values() if isinstance(v, Term))
            self.ev(p, "call", text=fn.name + "<recursive>", args=args_, line=getattr(node, "lineno", 0))
            return [(p, Sym("call:" + fn.name, args_))]
        self.ctx.call_stack.append((id(fn), akey))
        try:
            return self._inline(module, owner, fn, selfterm, selfattrs, bound, p, node, via)
        finally:
            self.ctx.call_stack.pop()

    def _inline(self, module, owner, fn, selfterm, selfattrs, bound, p, node, via):
        if not isinstance(fn, ast.Lambda):
            self.ev(p, "enter", text=fn.name, args=tuple(v for k, v in bound.items()), line=getattr(node, "lineno", 0),
                    target=Sym("args", tuple(Sym("kw:" + k, (v,)) for k, v in bound.items() if isinstance(v, Term))))
        fr = Frame(self.ctx, module, owner, selfterm, selfattrs, self.depth + 1,
                   via if via is not None else self.via,
                   f"{owner.name + '.' if owner else ''}{getattr(fn, 'name', '<lambda>')}")
        env = dict(bound)
        if selfterm is not None and not isinstance(fn, ast.Lambda):
            a = fn.args
            names = [x.arg for x in a.posonlyargs + a.args]
            decos = [ast.unparse(d) for d in fn.decorator_list]
            if names and "staticmethod" not in decos:
                env[names[0]] = selfterm
        fr.guards = list(self.guards)
        fr.held = list(self.held)
        if isinstance(fn, ast.Lambda):
            callee = p.derive(env, p.events, p.conds)
            res = fr.expr(fn.body, callee)
            paths = []
            for q, t in res:
                if q.status == "live":
                    q.status = "ret"
                    q.ret = t
                paths.append(q)
        else:
            paths = fr.run_function(fn, env, p)
        out = []
        for q in dedupe(paths):
            c = q.derive(p.env, q.events, q.conds)
            if q.status == "raise":
                c.status = "raise"
                c.exc = q.exc
                out.append((c, Opaque("raised")))
            else:
                c.init_env = q.env
                if selfterm is not None and selfterm is self.selfterm and not isinstance(fn, ast.Lambda):
                    # a method of the same object: what it stored on self is there for the caller too
                    for k_, v_ in q.env.items():
                        if k_.startswith("self."):
                            c.env[k_] = v_
                out.append((c, q.ret if q.ret is not None else Const(None)))
        return out

    def call_fn(self, fn: Fn, pos, kw, p: Path, node):
        owner, selfterm, selfattrs, module = fn.owner
        nm = getattr(fn.node, "name", "<lambda>")
        if nm in self.ctx.no_inline:
            kws = tuple(Sym("kw:" + k, (v,)) for k, v in sorted(kw.items()))
            self.ev(p, "call", text=nm, args=tuple(pos) + kws, line=getattr(node, "lineno", 0))
            return [(p, Sym("call:" + nm, tuple(pos) + kws))]
        is_method = fn.kind == "method"
        f = fn.node
        if isinstance(f, ast.Lambda):
            bound = self.bind_lambda(f, pos, kw, fn)
            env = dict(fn.frame or {})
            env.update(bound)
            return self.inline(module, owner, f, selfterm, selfattrs, env, p, node)
        bound = self.bind_params(f, is_method, pos, kw, module, fn.pos, fn.bound)
        if fn.kind == "func" and fn.frame:
            env = dict(fn.frame)
            env.update(bound)
            bound = env
        if any(isinstance(n, (ast.Yield, ast.YieldFrom)) for n in ast.walk(f)):
            # generator function: body runs lazily; still collect its events
            pass
        return self.inline(module, owner, f, selfterm if is_method else None,
                           selfattrs if is_method else None, bound, p, node)

    def bind_lambda(self, f: ast.Lambda, pos, kw, fn: Fn):
        a = f.args
        names = [x.arg for x in a.posonlyargs + a.args]
        bound = {}
        allpos = list(fn.pos) + list(pos)
        for n, t in zip(names, allpos):
            bound[n] = t
        for k, v in {**fn.bound, **kw}.items():
            bound[k] = v
        n_def = len(a.defaults)
        for name, d in zip(names[len(names) - n_def:], a.defaults):
            bound.setdefault(name, self.default_term(d, self.module))
        for n in names:
            bound.setdefault(n, Opaque(f"param:{n}"))
        return bound

    # --------------------------------------------------------- construction
    def construct(self, ci: ClassInfo, pos, kw, p: Path, node):
        line = getattr(node, "lineno", 0)
        is_nodeish = ci.is_subclass_of("Evaluatable") or ci.is_subclass_of("Effect")
        if not is_nodeish:
            r0 = ci.find_method("__init__")
            if r0 is not None and not any(isinstance(x, Sym) and x.head == "star" for x in pos) and "**" not in kw and r0[1].args.vararg is None and r0[1].args.kwarg is None:
                b = self.bind_params(r0[1], True, pos, kw, r0[0].module)
                names = [x.arg for x in r0[1].args.posonlyargs + r0[1].args.args][1:] + [x.arg for x in r0[1].args.kwonlyargs]
                canon = tuple(b.get(n, Opaque(n)) for n in names)
                self.ev(p, "call", text="new " + ci.name, args=canon, line=line)
                return [(p, Sym("new:" + ci.name, canon))]
            self.ev(p, "call", text="new " + ci.name, args=tuple(pos) + tuple(Sym("kw:" + k, (v,)) for k, v in kw.items()), line=line)
            return [(p, Sym("new:" + ci.name, tuple(pos) + tuple(Sym("kw:" + k, (v,)) for k, v in sorted(kw.items()))))]
        r = ci.find_method("__init__")
        new = New(ci, {}, line)
        # the constructor's own arguments (the class's public signature), for rules that read what was asked for
        new.ctor = (tuple(pos), dict(kw))
        if ci.name in getattr(self.ctx, "track_new", ()):
            # a rule asked under which conditions objects of this class are built
            self.ev(p, "new", text=ci.name, target=new, args=tuple(pos) + tuple(Sym("kw:" + k, (v,)) for k, v in sorted(kw.items())), line=line)
        if r is None:
            return [(p, new)]
        owner, fn = r
        bound = self.bind_params(fn, True, pos, kw, owner.module)
        res = self.inline(owner.module, ci, fn, new, new.attrs, bound, p, node, via=self.via)
        ok = [(q, t) for q, t in res if q.status == "live"]
        bad = [(q, t) for q, t in res if q.status != "live"]
        if not ok:
            return res
        # merge attribute stores of all normal __init__ paths
        merged: Dict[str, List[Term]] = {}
        for q, _ in ok:
            env = getattr(q, "init_env", {})
            for k, v in env.items():
                if k.startswith("self."):
                    merged.setdefault(k[5:], [])
                    if v not in merged[k[5:]]:
                        merged[k[5:]].append(v)
        for k, vs in merged.items():
            nodeish = [v for v in vs if isinstance(v, (Child, New, Coll, Seq, Fn))]
            if len(vs) == 1:
                new.attrs[k] = vs[0]
            elif len(nodeish) == 1:
                new.attrs[k] = nodeish[0]
            elif nodeish:
                new.attrs[k] = nodeish[0]
            else:
                new.attrs[k] = Sym("oneof", tuple(vs))
        new._k = None
        # one caller path: events of the first normal path (constructors hold
        # no ops; R-CL checks that separately)
        q0 = ok[0][0]
        out = [(q0, new)]
        # keep raise paths of argument validation out of op analysis
        return out

    def instantiate_dataset_class(self, pos, kw, p: Path, node):
        """``cls(options)`` inside a metaclass that is an Evaluatable: find
        the mixin ``__init__`` installed by ``new_class(..., (c, Mixin),
        kwds={'metaclass': <this class>})`` in the same module."""
        mixin = None
        for n in ast.walk(self.cls.module.tree):
            if isinstance(n, ast.Call) and isinstance(n.func, ast.Name) and n.func.id == "new_class":
                mentions = any(isinstance(x, ast.Name) and x.id == self.cls.name for k in n.keywords for x in ast.walk(k.value))
                if mentions and len(n.args) >= 2 and isinstance(n.args[1], ast.Tuple):
                    for b in n.args[1].elts:
                        c = self.repo.resolve_class(self.cls.module, b)
                        if c is not None and c.find_method("__init__"):
                            mixin = c
        if mixin is None:
            return None
        owner, fn = mixin.find_method("__init__")
        inst = Child("<instance>")
        inst.kind = "other"
        bound = self.bind_params(fn, True, pos, kw, owner.module)
        fr_res = self.inline(owner.module, self.cls, fn, inst, None, bound, p, node)
        return [(q, Sym("instance", ())) for q, _ in fr_res]


_MUTATORS = {"update", "pop", "setdefault", "clear", "append", "add", "extend", "remove", "popitem", "insert", "discard", "__setitem__", "__delitem__"}


def _never_mutated(repo: Repo, module: Module, name: str) -> bool:
    """No statement of the repository stores into, deletes from, re-binds or calls a mutating method on the
    module-level name (looked at through every module that can see it under that name)."""
    cache = repo.__dict__.setdefault("_never_mutated", {})
    k = (module.name, name)
    if k in cache:
        return cache[k]
    ok = True
    for m in repo.modules.values():
        if m is not module and not (name in m.imports and m.imports[name][0] == module.name):
            # ``module.NAME[...] = …`` through the module object
            for n in ast.walk(m.tree):
                if isinstance(n, ast.Attribute) and n.attr == name and isinstance(n.ctx, (ast.Store, ast.Del)):
                    ok = False
            continue
        binds = 0
        for n in ast.walk(m.tree):
            if isinstance(n, ast.Name) and n.id == name and isinstance(n.ctx, (ast.Store, ast.Del)):
                binds += 1
            elif isinstance(n, ast.Global) and name in n.names:
                ok = False
            elif isinstance(n, ast.Subscript) and isinstance(n.ctx, (ast.Store, ast.Del)) and isinstance(n.value, ast.Name) and n.value.id == name:
                ok = False
            elif isinstance(n, ast.Call) and isinstance(n.func, ast.Attribute) and n.func.attr in _MUTATORS and isinstance(n.func.value, ast.Name) and n.func.value.id == name:
                ok = False
            elif isinstance(n, ast.AugAssign) and isinstance(n.target, ast.Name) and n.target.id == name:
                ok = False
        if m is module and binds != 1:
            ok = False
    cache[k] = ok
    return ok


_CONF_SIGS: Optional[Dict[str, List[str]]] = None


def _confectioner_signature(fname: str) -> Optional[List[str]]:
    """Positional parameter names of a top-level function of the confectioner package, read from its source (not imported)."""
    global _CONF_SIGS
    if _CONF_SIGS is None:
        import glob
        import os
        _CONF_SIGS = {}
        cands = glob.glob("/venv/lib/python3*/site-packages/confectioner/*.py")
        for base in os.environ.get("LABREA_SITE", "").split(":"):
            if base:
                cands += glob.glob(os.path.join(base, "confectioner", "*.py"))
        for path in cands:
            try:
                tree = ast.parse(open(path).read())
            except (OSError, SyntaxError):
                continue
            for n in tree.body:
                if isinstance(n, ast.FunctionDef):
                    _CONF_SIGS.setdefault(n.name, [a.arg for a in n.args.posonlyargs + n.args.args])
    return _CONF_SIGS.get(fname)


def _only_reraises(h: ast.ExceptHandler) -> bool:
    """Straight-line clean-up followed by a bare ``raise``: the handler cannot end any other way."""
    if not h.body or not isinstance(h.body[-1], ast.Raise) or h.body[-1].exc is not None:
        return False
    return all(isinstance(st, (ast.Expr, ast.Assign, ast.AugAssign, ast.AnnAssign, ast.Pass, ast.Delete)) for st in h.body[:-1])


def display_items(t: Term) -> Optional[List[Tuple[Term, Term]]]:
    """(key, value) pairs of a dictionary display whose keys are distinct constants or classes, in order, else None."""
    if not (isinstance(t, Sym) and t.head == "dict" and t.args):
        return None
    out: List[Tuple[Term, Term]] = []
    seen = set()
    for it in t.args:
        if not (isinstance(it, Sym) and it.head == "item" and len(it.args) == 2):
            return None
        k = it.args[0]
        if not (isinstance(k, Const) or (isinstance(k, Sym) and k.head == "class")) or k.key() in seen:
            return None
        seen.add(k.key())
        out.append((k, it.args[1]))
    return out


def known_dict(t: Term) -> Optional[Dict[str, Term]]:
    """Entries of a dictionary term whose keys are all constant strings (later entries win), else None."""
    if not (isinstance(t, Sym) and t.head == "dict"):
        return None
    out: Dict[str, Term] = {}
    for it in t.args:
        if isinstance(it, Sym) and it.head == "item" and len(it.args) == 2 and isinstance(it.args[0], Const) and isinstance(it.args[0].v, str):
            out.pop(it.args[0].v, None)
            out[it.args[0].v] = it.args[1]
        elif isinstance(it, Sym) and it.head == "dstar" and known_dict(it.args[0]) is not None:
            for k, v in known_dict(it.args[0]).items():
                out.pop(k, None)
                out[k] = v
        else:
            return None
    return out


def _walk_own(fn):
    """nodes of a function body without nested defs/lambdas"""
    stack = list(fn.body)
    while stack:
        n = stack.pop()
        yield n
        if isinstance(n, (ast.FunctionDef, ast.AsyncFunctionDef, ast.Lambda, ast.ClassDef)):
            continue
        stack.extend(ast.iter_child_nodes(n))


# ----------------------------------------------------------------- helpers
class _Sentinel:
    def __repr__(self):
        return "MISSING"

    def __eq__(self, other):
        return isinstance(other, _Sentinel)

    def __hash__(self):
        return 7


MISSING = _Sentinel()


def strip_ensure(t: Term) -> Term:
    return t


def _is_subterm(t: Term, outer: Term, _d: int = 0) -> bool:
    """Is ``t`` (by identity of its key) a strict sub-term of the New term ``outer``?"""
    if _d > 8 or not isinstance(outer, New):
        return False
    k = t.key()
    for v in outer.attrs.values():
        if v.key() == k:
            return True
        if isinstance(v, New) and _is_subterm(t, v, _d + 1):
            return True
    return False


def _has_child_leaf(t: Term, _d: int = 0) -> bool:
    """Does the term mention a child of the analysed object?  Terms that do
    not (``Option(key)`` built from a template key) cannot contribute facts
    about the object's children, so they are unfolded only once."""
    if _d > 12:
        return True
    if isinstance(t, Child):
        return True
    if isinstance(t, New):
        return any(_has_child_leaf(v, _d + 1) for v in t.attrs.values())
    if isinstance(t, Coll):
        return _has_child_leaf(t.elem, _d + 1)
    if isinstance(t, Seq):
        return any(_has_child_leaf(v, _d + 1) for v in t.items)
    if isinstance(t, (Sym, Val, Bound)):
        subs = list(getattr(t, "args", ())) + ([t.target] if hasattr(t, "target") else [])
        return any(_has_child_leaf(v, _d + 1) for v in subs if isinstance(v, Term))
    if isinstance(t, Fn):
        return any(_has_child_leaf(v, _d + 1) for v in list(t.bound.values()) + list(t.pos))
    return False


def project(t: Term, i: int) -> Term:
    if isinstance(t, Seq) and i < len(t.items):
        return t.items[i]
    if isinstance(t, Child):
        c = Child(f"{t.path}.{i}")
        c.kind = getattr(t, "kind", "other")
        return c
    if isinstance(t, Sym) and t.head == "item" and i < len(t.args):
        return t.args[i]
    return Sym(f"proj{i}", (t,))


def iter_elems(it: Term) -> List[Term]:
    """Abstract element(s) of an iterable term."""
    if isinstance(it, Coll):
        return [it.elem]
    if isinstance(it, Child) and getattr(it, "mapping", False) and not it.path.endswith("]"):
        return [Sym("key", (it,))]
    if isinstance(it, Child):
        c = Child(it.path + "[*]")
        k = getattr(it, "kind", "other")
        c.kind = "node" if k == "nodes" else k
        return [c]
    if isinstance(it, Seq):
        items = []
        for x in it.items:
            if isinstance(x, Sym) and x.head == "star":
                items.extend(iter_elems(x.args[0]))
            else:
                items.append(x)
        return items or [Opaque("empty")]
    if isinstance(it, Sym) and it.head.startswith("reordered:"):
        return iter_elems(it.args[0])
    if isinstance(it, Sym) and it.head in ("call:items", "call:values", "call:keys") and it.args and display_items(it.args[0]) is not None:
        # views of a dictionary display with distinct constant keys are exact, in display order
        return [Sym("item", (k_, v_)) if it.head == "call:items" else (v_ if it.head == "call:values" else k_) for k_, v_ in display_items(it.args[0])]
    if isinstance(it, Sym) and it.head in ("call:items", "call:values") and it.args:
        base = it.args[0]
        if isinstance(base, Child) and getattr(base, "mapping", False):
            b2 = Child(base.path)
            for a_ in ("kind", "index", "args"):
                if hasattr(base, a_):
                    setattr(b2, a_, getattr(base, a_))
            els = iter_elems(b2)        # the values, not the keys
        else:
            els = iter_elems(base)
        if it.head == "call:items":
            return [Sym("item", (Sym("key", (base,)), el)) for el in els]
        return els
    if isinstance(it, Sym) and it.head == "dictkeys":
        return [Sym("key", it.args)]
    if isinstance(it, Sym) and it.head == "call:enumerate" and it.args:
        # (position, element) pairs of the underlying iterable; position counts from ``start``
        pos_t: Term = Sym("position")
        start = None
        for a in it.args[1:]:
            start = a.args[0] if isinstance(a, Sym) and a.head == "kw:start" and a.args else a
        if start is not None and not (isinstance(start, Const) and start.v == 0):
            pos_t = Sym("binop:Add", (pos_t, start))
        return [Seq([pos_t, el]) for el in iter_elems(it.args[0])]
    if isinstance(it, Sym) and it.head == "call:zip" and len(it.args) >= 2 and not any(isinstance(a, Sym) and a.head.startswith("kw:") for a in it.args):
        cols = [iter_elems(a) for a in it.args]
        if all(len(c) == 1 for c in cols):
            return [Seq([c[0] for c in cols])]
    if isinstance(it, Sym) and it.head in ("call:itertools.product", "call:product") and len(it.args) >= 2 and not any(isinstance(a, Sym) and (a.head.startswith("kw:") or a.head == "star") for a in it.args):
        # every combination of one element of each: as abstract elements, one of each
        cols = [iter_elems(a) for a in it.args]
        if all(len(c) == 1 for c in cols):
            return [Seq([c[0] for c in cols])]
    if isinstance(it, Sym) and it.head in ("call:itertools.islice", "call:islice") and it.args:
        return iter_elems(it.args[0])        # some of its elements (the caller marks the collection partial)
    return [Sym("elem", (it,))]


def exc_type_text(node: ast.expr, t: Term) -> str:
    if isinstance(node, ast.Call) and isinstance(node.func, ast.Name) and isinstance(t, Sym) and (t.head.startswith("new:") or t.head == "exc-of"):
        # ``raise error()`` with ``error`` a local factory (a lambda handed in): what the call produced says what is raised
        return t.head[4:] if t.head.startswith("new:") else "EvaluationError?"
    if isinstance(node, ast.Call):
        return ast.unparse(node.func)
    if isinstance(t, Sym):
        if t.head.startswith("new:"):
            return t.head[4:]
        if t.head == "exc-of":
            return "EvaluationError?"
        return t.text or t.head
    return ast.unparse(node)


_CONTAINERS = {"Mapping", "Dict", "List", "Sequence", "Tuple", "Iterable", "Set", "dict", "list", "tuple", "set", "FrozenSet", "MutableMapping"}
_TRANSPARENT = {"Optional", "Union", "MaybeMissing", "MaybeEvaluatable"}


def annotation_kind(repo: Repo, m: Module, ann: ast.expr, _depth: int = 0) -> str:
    """node | nodes | callable-node | callable | other"""
    if _depth > 12:
        return "other"
    if isinstance(ann, ast.Constant) and isinstance(ann.value, str):
        try:
            ann = ast.parse(ann.value, mode="eval").body
        except SyntaxError:
            return "other"
    head = ann.value if isinstance(ann, ast.Subscript) else ann
    hname = ast.unparse(head).split(".")[-1]
    args = []
    if isinstance(ann, ast.Subscript):
        args = ann.slice.elts if isinstance(ann.slice, ast.Tuple) else [ann.slice]
    if hname in _TRANSPARENT:
        kinds = [annotation_kind(repo, m, a, _depth + 1) for a in args]
        for k in ("node", "nodes", "callable-node", "callable"):
            if k in kinds:
                return k
        return "other"
    if hname == "Callable":
        if repo.annotation_mentions(m, ann, "Evaluatable") and args and repo.annotation_mentions(m, args[-1], "Evaluatable"):
            return "callable-node"
        return "callable"
    if hname in _CONTAINERS:
        for a in args:
            k = annotation_kind(repo, m, a, _depth + 1)
            if k in ("node", "nodes"):
                return "nodes"
        return "other"
    r = repo.resolve_expr(m, head) if isinstance(head, (ast.Name, ast.Attribute)) else None
    if r and r[0] == "class":
        c = r[1]
        if c.name in ("Evaluatable", "Effect") or c.is_subclass_of("Evaluatable") or c.is_subclass_of("Effect"):
            return "node"
        return "other"
    if r and r[0] == "var" and isinstance(r[1], ast.expr) and not isinstance(r[1], ast.Call):
        return annotation_kind(repo, r[2], r[1], _depth + 1)
    return "other"


# ------------------------------------------------------------- entry points
STATS = {"paths": 0, "functions": 0}      # what the interpreter analysed in this process (reported in the evidence)


def analyse_method(ctx: Ctx, cls: ClassInfo, name: str) -> List[Path]:
    """All paths of ``cls.name`` with ``self`` abstract (children = attrs)."""
    r = cls.find_method(name)
    if r is None:
        raise AnalysisError(f"{cls.qualname} has no method {name}")
    owner, fn = r
    fr = Frame(ctx, owner.module, cls, SELF, None, 0, (), f"{cls.name}.{name}")
    a = fn.args
    names = [x.arg for x in a.posonlyargs + a.args] + [x.arg for x in a.kwonlyargs]
    env: Dict[str, Term] = {}
    if names:
        env[names[0]] = SELF
    for n in names[1:]:
        env[n] = Sym(n)
    ctx.unfolding.append((cls.qualname, name))
    ctx.root_cls = cls
    try:
        ps_ = fr.run_function(fn, env, Path())
        STATS["paths"] += len(ps_)
        STATS["functions"] += 1
        return ps_
    finally:
        ctx.unfolding.pop()


def analyse_method_result_call(ctx: Ctx, cls: ClassInfo, name: str, args: List[Term]) -> List[Path]:
    """Paths of ``cls.name(...)`` continued by calling the returned function value
    with ``args`` (e.g. Pipeline.evaluate(options)(x)).  A path whose result is not
    a known function keeps status "ret" with a ``valuecall`` term."""
    r = cls.find_method(name)
    if r is None:
        raise AnalysisError(f"{cls.qualname} has no method {name}")
    owner, fn = r
    fr = Frame(ctx, owner.module, cls, SELF, None, 0, (), f"{cls.name}.{name}")
    out: List[Path] = []
    fake = ast.Call(func=ast.Name(id="<result>", ctx=ast.Load()), args=[], keywords=[])
    fake.lineno = fn.lineno
    fake.col_offset = 0
    for p in analyse_method(ctx, cls, name):
        if p.status != "ret" or p.ret is None:
            out.append(p)
            continue
        q = p.fork()
        q.status = "live"
        callee = q.ret
        q.ret = None
        for q2, t in fr.call_term(callee, list(args), {}, q, fake):
            if q2.status == "live":
                q2.status = "ret"
                q2.ret = t
            out.append(q2)
    return out


def analyse_function(ctx: Ctx, module: Module, fn: ast.FunctionDef, env: Optional[Dict[str, Term]] = None,
                     cls: Optional[ClassInfo] = None) -> List[Path]:
    """Paths of a plain function.  With ``cls`` the function is a method of that (non-node)
    class: ``self`` stays symbolic and calls of the class's own methods through it are inlined."""
    if cls is not None:
        ctx.sym_self_cls = cls
    fr = Frame(ctx, module, None, None, None, 0, (), fn.name)
    a = fn.args
    names = [x.arg for x in a.posonlyargs + a.args] + [x.arg for x in a.kwonlyargs]
    e: Dict[str, Term] = {n: Sym(n) for n in names}
    if a.vararg:
        e[a.vararg.arg] = Child("*" + a.vararg.arg)
    if a.kwarg:
        e[a.kwarg.arg] = Child("**" + a.kwarg.arg)
    e.update(env or {})
    wrapped = _apply_private_decorators(ctx, module, fn, fr) if cls is None else None
    if wrapped is not None:
        # the function as the module binds it: wrapped by the repository's own private decorators
        fake = ast.Call(func=ast.Name(id=fn.name, ctx=ast.Load()), args=[], keywords=[])
        fake.lineno, fake.col_offset = fn.lineno, 0
        ps_ = []
        pos_names = [x.arg for x in a.posonlyargs + a.args]
        for q, t in fr.call_term(wrapped, [e[n] for n in pos_names], {x.arg: e[x.arg] for x in a.kwonlyargs}, Path(), fake):
            if q.status == "live":
                q.status = "ret"
                q.ret = t
            ps_.append(q)
        ps_ = dedupe(ps_)
    else:
        ps_ = fr.run_function(fn, e, Path())
    STATS["paths"] += len(ps_)
    STATS["functions"] += 1
    return ps_


def _apply_private_decorators(ctx: Ctx, module: Module, fn, fr: "Frame") -> Optional[Term]:
    """``@_helper`` / ``@_helper(args)`` where ``_helper`` is a private function of the repository: the name
    is bound to what the decorator returns, so that is what callers (and the runtime's handler table) run.
    Public decorators (``@dataset``, ``@pipeline_step``, ``Request.handle`` …) are API with their own rules."""
    decos = []
    for d in getattr(fn, "decorator_list", []):
        f0 = d.func if isinstance(d, ast.Call) else d
        if isinstance(f0, ast.Name) and f0.id.startswith("_"):
            r = ctx.repo.resolve_name(module, f0.id)
            if r and r[0] == "func":
                decos.append(d)
        elif isinstance(f0, (ast.Name, ast.Attribute)):
            # ``@runtime._bypass_when(...)`` / ``@_switches.unless(...)``: a private function of another module of the
            # package, or any function of a private module (one whose name starts with an underscore)
            r = ctx.repo.resolve_expr(module, f0)
            if r and r[0] == "func" and (r[1].node.name.startswith("_") or r[1].module.name.rsplit(".", 1)[-1].startswith("_")) \
                    and not r[1].module.name.startswith("labrea.mypy"):
                decos.append(d)
    if not decos:
        return None
    t: Term = Fn("func", (None, None, None, module), fn)
    for d in reversed(decos):
        res = [(q, c) for q, c in fr.expr(d, Path()) if q.status == "live"]
        if len(res) != 1:
            return None
        fake = ast.Call(func=d, args=[], keywords=[])
        fake.lineno, fake.col_offset = d.lineno, d.col_offset
        res2 = [(q, c) for q, c in fr.call_term(res[0][1], [t], {}, Path(), fake) if q.status == "live"]
        if len(res2) != 1 or not isinstance(res2[0][1], Fn):
            return None
        t = res2[0][1]
    return t
