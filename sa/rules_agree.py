"""Sibling agreement between evaluate / validate / keys / explain (DESIGN 3.1)
and selection laziness (3.5), all decided on the op facts of the interpreter."""
from __future__ import annotations

import ast

from typing import Dict, List, Set, Tuple

from .facts import Run, normal, op_targets
from .model import AnalysisError
from .interp import OPS, exc_is_subclass
from .report import RuleResult
from .terms import Child, New


def _cond_sig(p):
    """pure path conditions as {term: polarity}; terms that depend on evaluated
    values are not comparable across sibling methods and are dropped."""
    out = {}
    for c in p.conds:
        t = c[2]
        if not t or "valuecall" in t or "run(" in t or "Opaque" in t or "exc-of" in t:
            continue
        if "Val(" in t and not _constant_switch(t):
            continue
        pol = c[1]
        if t.startswith("unop:Not(") and t.endswith(")"):
            t, pol = t[len("unop:Not("):-1], not pol
        if t.startswith("cmp:IsNot("):
            t, pol = "cmp:Is(" + t[len("cmp:IsNot("):], not pol
        if t in out and out[t] != pol:
            out[t] = None
        else:
            out.setdefault(t, pol)
    # presence facts: a lookup get_dotted_key(K, O) that succeeded on this path means K is present in O, one that
    # failed (KeyError handled) means it is absent — the same fact a sibling method states as dotted_key_exists(K, O)
    for e in p.events:
        if e.kind == "call" and e.text.endswith("get_dotted_key") and len(e.args) >= 2 and not e.via:
            t = f"call:confectioner.templating.dotted_key_exists({e.args[0].key()},{e.args[1].key()})"
            if "Val(" in t or "valuecall" in t:
                continue
            pol = not e.failed
            if t in out and out[t] is not None and out[t] != pol:
                out[t] = None
            else:
                out.setdefault(t, pol)
    # what follows from what: None is falsy, and what is truthy is not None
    for t, pol in list(out.items()):
        if t.startswith("cmp:Is(") and t.endswith(",Const(None))") and pol is True:
            out.setdefault(t[len("cmp:Is("):-len(",Const(None))")], False)
        elif pol is True and not t.startswith(("cmp:", "call:", "unop:", "and(", "or(")):
            out.setdefault(f"cmp:Is({t},Const(None))", False)
    return out


def _constant_switch(t: str) -> bool:
    """The only evaluated values in the condition are those of constant nodes (module-level switches such as
    Option('LABREA.EFFECTS.DISABLED', False)) that mention no child of the object: a function of the options alone,
    the same in every sibling operation."""
    import re
    rest = t
    for m in re.finditer(r"Val\(evaluate,New\(", t):
        pass
    if "Child(" in t or "Sym" in t:
        return False
    return all(seg.startswith("evaluate,New(Option;") for seg in t.split("Val(")[1:])


_PURE_HEADS = ("call:isinstance(", "call:confectioner.templating.dotted_key_exists(", "call:callable(", "call:hasattr(", "call:len(", "call:bool(")


def _about_object(t: str) -> bool:
    """The condition speaks about the object's own fields, the operation's parameters and constants only — not about a
    value computed on the way (a dictionary being filled, the result of a call)."""
    rest = t
    for h in _PURE_HEADS:
        rest = rest.replace(h, "(")
    return not any(x in rest for x in ("call:", "dict{}", "list[]", "Seq[", "new:", "callres(", "getitem(", "dict(", "binop:", "fstr("))


def _compatible(a, b) -> bool:
    sa, sb = _cond_sig(a), _cond_sig(b)
    for t, pol in sa.items():
        if t in sb and pol is not None and sb[t] is not None and sb[t] != pol:
            return False
    return True


def _count(path, op: str, child: str) -> int:
    return sum(1 for e in path.events if e.kind == "op" and e.op == op and not e.failed
               and isinstance(e.target, Child) and e.target.path == child)


def _whole(path, op: str, child: str) -> bool:
    return any(e.kind == "op" and e.op == op and not e.failed and (e.whole or getattr(e, "sofar", False))
               and isinstance(e.target, Child) and e.target.path == child for e in path.events)


def _meth_loc(run: Run, cls, op):
    owner, fn = cls.find_method(op)
    return owner.module.relpath, fn.lineno


def _children_typed(run: Run, cls) -> Dict[str, str]:
    from .interp import annotation_kind
    out = {}
    for c in reversed(cls.mro()):
        for a, ann in c.annotations.items():
            out[a] = annotation_kind(run.repo, c.module, ann)
    return out


def _is_effect_child(run: Run, cls, path: str) -> bool:
    root = path.split("[")[0].split(".")[0]
    for c in cls.mro():
        if root in c.annotations:
            ann = c.annotations[root]
            return run.repo.annotation_mentions(c.module, ann, "Effect") and not run.repo.annotation_mentions(c.module, ann, "Evaluatable")
    return False


# ------------------------------------------------------------------ R-KC
def rule_KC(run: Run) -> RuleResult:
    """Key coverage: every child consulted by evaluation is keyed."""
    res = RuleResult("R-KC")
    nec = ("a child that is evaluated but not keyed lets two option dictionaries that differ "
           "only in that child's keys share a fingerprint (stale cache hit) and makes the "
           "restricted dictionary evaluate differently")
    for cls in run.node_classes():
        f, ln = _meth_loc(run, cls, "keys")
        kpaths = normal(run.paths(cls, "keys"))
        epaths = normal(run.paths(cls, "evaluate"))
        res.count("classes")
        res.count("paths", len(kpaths) + len(epaths))
        if not kpaths:
            res.add(f"{cls.qualname}:keys:no-normal-path", False, f, ln, "keys() has no path that returns", nec)
            continue
        # (1) per path of keys: evaluated => keyed on the same path
        bad: Set[str] = set()
        for p in kpaths:
            ev = op_targets(p, "evaluate")
            kd = set(op_targets(p, "keys"))
            for c in ev:
                if c not in kd and c != "<self>":
                    bad.add(c)
        # (2) across methods: evaluated in evaluate => keyed somewhere in keys
        keyed_any: Set[str] = set()
        for p in kpaths:
            keyed_any.update(op_targets(p, "keys"))
        evaluated_any: List[str] = []
        for p in epaths:
            for c in op_targets(p, "evaluate"):
                if c not in evaluated_any:
                    evaluated_any.append(c)
        selfop = any(e.kind == "selfop" and e.op == "keys" for p in kpaths for e in p.events)
        for c in evaluated_any:
            if c == "<self>":
                continue
            if c not in keyed_any and not selfop:
                bad.add(c)
        # (3) every evaluate path's children are keyed together by ONE keys path
        for p in epaths:
            need = set(op_targets(p, "evaluate")) - {"<self>"}
            if not need or need & bad:
                continue
            if not selfop and not any(need <= set(op_targets(k, "keys")) and _compatible(p, k) for k in kpaths):
                worst = sorted(need - set().union(*[set(op_targets(k, "keys")) for k in kpaths if set(op_targets(k, "keys")) & need] or [set()]))
                for c in (worst or sorted(need)):
                    bad.add(c)
        # (4) multiset coverage with loops unrolled twice: an element consulted in
        # the second iteration must be keyed as well (not only the last/first one)
        try:
            deep = normal(run.paths(cls, "keys", unroll=2, max_steps=6000))
        except AnalysisError:
            deep = []
            res.notes.append(f"{cls.name}.keys: two-iteration unrolling exceeds the step budget; multiset coverage not checked for this class")
        for k2 in deep:
            for c in set(op_targets(k2, "evaluate")):
                if "[*]" not in c or c in bad:
                    continue
                if _count(k2, "evaluate", c) > _count(k2, "keys", c) and not _whole(k2, "keys", c):
                    bad.add(c)
                    if c not in evaluated_any:
                        evaluated_any.append(c)
        # (5) what evaluate attempts whatever happens is attempted by keys: a keys path taken on grounds that evaluate does not
        # look at (a short cut for "the dispatch option is absent") must still ask — or evaluate — every part that every
        # compatible evaluate path begins with, because the outcome of that attempt is what selects the rest
        def attempted(path, ops, always=False):
            out_ = set()
            for e in path.events:
                if e.kind == "op" and e.op in ops and isinstance(e.target, Child):
                    if always and (e.whole or e.in_comp):
                        continue        # once per element of a collection: not at all when the collection is empty
                    out_.add(e.target.path)
            return out_
        for k in kpaths:
            if selfop or any(e.kind == "selfop" for e in k.events):
                continue
            comp = [e_ for e_ in epaths if _compatible(e_, k)]
            if not comp:
                continue
            must = None
            for e_ in comp:
                a_ = attempted(e_, ("evaluate",), always=True)
                must = a_ if must is None else (must & a_)
            # (elements of a collection are attempted once per element: none when it is empty — the multiset rule (4) covers them)
            must = {c_ for c_ in (must or set()) if "[*]" not in c_}
            # an Option whose key is absent and which has no default cannot be evaluated (Option.evaluate, R-AB): a path that
            # established exactly that about a part knows the attempt fails, and may skip it
            sig_k = _cond_sig(k)
            for c_ in list(must):
                absent = any(t_.endswith(f"dotted_key_exists(Child({c_}.key),options)") and pol_ is False for t_, pol_ in sig_k.items())
                no_default = sig_k.get(f"cmp:Is(Child({c_}.default),Const(MISSING))") is True
                if absent and no_default:
                    must.discard(c_)
            missing = sorted(must - attempted(k, ("keys", "evaluate", "validate")) - {"<self>"})
            for c in missing:
                if c not in bad:
                    bad.add(c)
                    if c not in evaluated_any:
                        evaluated_any.append(c)
        # (6) a part whose evaluation failed on this path is not asked for its keys (unless the question is asked under a handler of its
        # own): evaluation mostly fails because an option is missing, and then keys() of the part fails as well — keys(o) would fail
        # where evaluate(o) and validate(o), which fell back on another part, succeed
        for k in kpaths:
            failed_parts = []
            for e in k.events:
                if e.kind == "op" and e.op == "evaluate" and e.failed and isinstance(e.target, Child) and not e.via:
                    failed_parts.append(e.target.path)
                elif e.kind == "op" and e.op == "keys" and not e.failed and isinstance(e.target, Child) and e.target.path in failed_parts and e.guards:
                    failed_parts.remove(e.target.path)      # probed under a handler, and the probe went through: its keys can be had
                elif e.kind == "op" and e.op == "keys" and not e.failed and isinstance(e.target, Child) and e.target.path in failed_parts and not e.guards:
                    res.add(f"{cls.qualname}:keys:{e.target.path} asked for its keys only where it could be evaluated", False, f, e.line or ln,
                            f"{cls.name}.keys() asks '{e.target.path}' for its keys (line {e.line}) on a path where evaluating it had just failed", nec)
                    break
        trivial = not evaluated_any and not keyed_any
        for c in sorted(set(evaluated_any) | bad):
            if c == "<self>":
                continue
            ok = c not in bad
            res.add(f"{cls.qualname}:keys:{c} evaluated-not-keyed", ok, f, ln,
                    f"{cls.name}: child '{c}' is evaluated " + ("and keyed" if ok else "but never keyed on that path / in keys()"), nec)
        if trivial:
            res.add(f"{cls.qualname}:keys:no-children", True, f, ln, "no children consulted", nec, trivial=True)
    return res


# ------------------------------------------------------------------ R-KU
_NON_UNION = ("binop:BitXor", "binop:BitAnd", "binop:Sub", "call:symmetric_difference", "call:intersection", "call:difference",
              "call:symmetric_difference_update", "call:intersection_update", "call:difference_update")
_UNION = ("binop:BitOr", "call:union", "call:update")


def _mentions_part(t) -> bool:
    """The term contains the result of an operation on a part (a Val) somewhere."""
    from .terms import Val, Sym, Seq
    if isinstance(t, Val):
        return True
    for a in list(getattr(t, "args", ()) or ()) + list(getattr(t, "items", ()) or ()) + ([t.elem] if hasattr(t, "elem") else []) + \
            ([t.keyterm] if getattr(t, "keyterm", None) is not None else []):
        if _mentions_part(a):
            return True
    return False


def rule_KU(run: Run) -> RuleResult:
    """The key sets of the parts are put together by union, and by nothing else."""
    from .terms import Sym, Seq, Val
    res = RuleResult("R-KU")
    nec = ("keys()/explain() of a composite is the union of what its parts report: a symmetric difference or an intersection drops every key "
           "two parts share (or do not share), a difference drops a part's keys, and `a or b` drops b's keys whenever a's set is non-empty — "
           "the fingerprint then ignores an option the value depends on and a stored value is served for other options (C01, C03, C16)")
    n_union = 0

    def walk(t, found):
        nonlocal n_union
        if isinstance(t, Sym):
            if t.head in _UNION:
                n_union += 1
            if t.head in ("or", "and") and sum(1 for a in t.args if _mentions_part(a)) >= 2:
                found.append(t)         # `a.keys(o) or b.keys(o)`: b is dropped whenever a reports anything
            if t.head in _NON_UNION:
                # taking away keys the object supplies itself (Map removes the keys it iterates over) is not a combination
                # of parts: only the operand that is removed may be free of part results
                if t.head == "binop:Sub" and len(t.args) == 2 and not _mentions_part(t.args[1]):
                    pass
                elif any(_mentions_part(a) for a in t.args):
                    found.append(t)
            for a in t.args:
                walk(a, found)
        elif isinstance(t, Seq):
            for a in t.items:
                walk(a, found)
        elif isinstance(t, Val):
            pass
        elif hasattr(t, "elem"):
            walk(t.elem, found)
    for cls in run.node_classes():
        for op in ("keys", "explain"):
            f, ln = _meth_loc(run, cls, op)
            paths = normal(run.paths(cls, op))
            if not paths:
                continue
            found: List = []
            for p in paths:
                if p.ret is not None:
                    walk(p.ret, found)
            shown = sorted({t.key()[:110] for t in found})
            res.add(f"{cls.qualname}:{op}:parts combined by union only", not found, f, ln,
                    "no difference / intersection / symmetric difference of part results" if not found else f"combines part results with {shown[0]}", nec)
            # the key set one part reports never decides whether another part is asked: paths that differ only in a test of such a
            # result must ask the same parts
            groups: Dict[tuple, List] = {}
            tested = False
            for p in paths:
                sig = []
                for c in p.conds:
                    t = c[2] or c[0]
                    if c[2] and (f"Val({op}," in c[2]):
                        tested = True
                        continue
                    sig.append((t, c[1]))
                groups.setdefault(tuple(sorted(set(sig))), []).append(p)
            if tested:
                bad = None
                for sig, ps in groups.items():
                    sets_ = {frozenset(op_targets(p, op)) for p in ps}
                    if len(sets_) > 1:
                        a_, b_ = sorted(sets_, key=len)[0], sorted(sets_, key=len)[-1]
                        bad = sorted(b_ - a_)
                res.add(f"{cls.qualname}:{op}:a part's key set does not decide which parts are asked", bad is None, f, ln,
                        "every path asks the same parts whatever a part reported" if bad is None else
                        f"{bad} are asked only when the key set of another part is empty (`a.{op}(o) or b.{op}(o)` is not a union)", nec)
    # the documented side switches (module-level Option constants such as LABREA.EFFECTS.DISABLED) do not decide which parts
    # keys() asks: the fingerprint of a cached dataset would differ between the two settings of the switch, an entry stored
    # under one setting is missed under the other, and the body runs again (a different value for a body that is not pure)
    for cls in run.node_classes():
        f, ln = _meth_loc(run, cls, "keys")
        paths = normal(run.paths(cls, "keys"))
        groups2: Dict[tuple, List] = {}
        switched = False
        for p in paths:
            sig = []
            for c in p.conds:
                import re as _re_sw
                if (c[2] and "Val(evaluate,New(Option;" in c[2] and _constant_switch(c[2])) or (c[2] and "Const('LABREA." in c[2] and "Child(" not in c[2]) \
                        or _re_sw.match(r"^(not )?_?[A-Z][A-Z0-9_]*\(", c[0] or ""):
                    # the test of a module-level switch constant (``_EFFECTS_DISABLED(options)``), however it was evaluated
                    switched = True
                    continue
                sig.append((c[2] or c[0], c[1]))
            groups2.setdefault(tuple(sorted(set(sig))), []).append(p)
        if not switched:
            continue
        bad2 = None
        for sig, ps in groups2.items():
            sets_ = {frozenset(op_targets(p, "keys")) for p in ps}
            if len(sets_) > 1:
                a_, b_ = sorted(sets_, key=len)[0], sorted(sets_, key=len)[-1]
                bad2 = sorted(b_ - a_)
        res.add(f"{cls.qualname}:keys:a side switch does not decide which parts are keyed", bad2 is None, f, ln,
                "the same parts are keyed under both settings" if bad2 is None else f"{bad2} are keyed under one setting of the switch only: the fingerprint depends on the switch", nec)
    res.count("union_sites", n_union)
    if n_union < 60:
        raise AnalysisError(f"R-KU: only {n_union} union sites seen in keys()/explain() results (anchor vanished)")
    return res


# ------------------------------------------------------------------ R-VA
def rule_VA(run: Run) -> RuleResult:
    res = RuleResult("R-VA")
    nec = ("a child that evaluate() needs and validate() skips lets validate(o) pass while "
           "evaluate(o) fails for a missing option")
    # the four operations are defined together: a class that brings its own evaluate() and inherits validate() / keys() / explain() from a
    # concrete ancestor answers those three for the ancestor's evaluation (a Value subclass that resolves templates in evaluate() still
    # validates like a constant: validate passes, evaluate fails for the missing option)
    n_sub = 0
    for ci in run.repo.classes.values():
        if ci.module.name.startswith("labrea.mypy") or ci.name == "Evaluatable" or not ci.is_subclass_of("Evaluatable"):
            continue
        n_sub += 1
        if "evaluate" not in ci.methods:
            continue
        inherited = []
        for op in ("validate", "keys", "explain"):
            fm = ci.find_method(op)
            if op in ci.methods or fm is None:
                continue
            owner_, fn_ = fm[0], fm[1]
            abstract = any(ast.unparse(d_).split(".")[-1] == "abstractmethod" for d_ in fn_.decorator_list)
            # ... of an ancestor that is an expression in its own right (it has an evaluate() of its own): a shared base that leaves
            # evaluate() to its subclasses wrote the three for them
            ev_ = owner_.find_method("evaluate")
            own_eval = ev_ is not None and ev_[0].name != "Evaluatable" and not any(ast.unparse(d_).split(".")[-1] == "abstractmethod" for d_ in ev_[1].decorator_list)
            if not abstract and owner_.name != "Evaluatable" and own_eval:
                inherited.append(f"{op} from {owner_.name}")
        res.add(f"{ci.qualname}:defines validate, keys and explain along with its own evaluate", not inherited, ci.module.relpath, ci.methods["evaluate"].lineno,
                "all four defined together" if not inherited else f"evaluate() is its own, but it inherits {', '.join(inherited)}: those describe the ancestor's evaluation", nec)
    if n_sub < 25:
        raise AnalysisError(f"R-VA: only {n_sub} expression classes found")
    for cls in run.node_classes():
        f, ln = _meth_loc(run, cls, "validate")
        vpaths = normal(run.paths(cls, "validate"))
        epaths = normal(run.paths(cls, "evaluate"))
        res.count("classes")
        res.count("paths", len(vpaths) + len(epaths))
        covered: Set[str] = set()
        selfeval = False
        for p in vpaths:
            covered.update(op_targets(p, "validate"))
            covered.update(op_targets(p, "evaluate"))
            if any(e.kind == "selfop" and e.op == "evaluate" for e in p.events):
                selfeval = True
        needed: List[str] = []
        for p in epaths:
            for op in ("evaluate", "transform"):
                for c in op_targets(p, op):
                    if c not in needed:
                        needed.append(c)
        # per evaluate path: its children must be covered by SOME validate
        # path as a whole (a validate path that covers only part of an
        # evaluate path's children cannot vouch for it)
        for p in epaths:
            need = set(op_targets(p, "evaluate")) | set(op_targets(p, "transform"))
            need.discard("<self>")
            if not need:
                continue
            okp = any(need <= (set(op_targets(v, "validate")) | set(op_targets(v, "evaluate"))) and _compatible(p, v) for v in vpaths)
            if not okp and cls is run.repo.role_class("all_options"):
                okp = selfeval
            res.add(f"{cls.qualname}:validate:path{{{','.join(sorted(need))}}} covered", okp, f, ln,
                    f"{cls.name}.evaluate path consults {sorted(need)}; " + ("some validate path covers them all" if okp else "no validate path covers them all"), nec)
        if not needed:
            res.add(f"{cls.qualname}:validate:no-children", True, f, ln, "no children", nec, trivial=True)
    return res


# ------------------------------------------------------------------ R-OF
def rule_OF(run: Run) -> RuleResult:
    """Options are handed on unchanged."""
    res = RuleResult("R-OF")
    nec = ("an operation evaluates its children under the options it was given: a class that substitutes another dictionary (resolved, "
           "filtered, defaulted, enriched) evaluates them under options the caller never supplied — escaped braces are resolved twice, "
           "a dangling template in an unrelated key fails the evaluation, keys() and evaluate() look at different dictionaries. "
           "Only WithOptions (and what is built from it: Map, pre-set/default options of a dataset) changes the options, by mixing in "
           "its own dictionary (C04, C08, C10)")
    wo = run.repo.cls("WithOptions")
    n = 0
    for cls in run.node_classes():
        for op in OPS:
            owner, fn = cls.find_method(op)
            if owner.name in ("Evaluatable", "Cacheable", "Validatable", "Explainable"):
                continue
            from . import astu as _astu
            ps_ = _astu.param_names(fn)
            if not ps_:
                continue
            optp = ps_[0]
            bad = None
            for p in run.paths(cls, op):
                for e in p.events:
                    if e.kind not in ("op", "unfold", "selfop") or e.via or e.opts is None:
                        continue
                    n += 1
                    k = e.opts.key()
                    if k == optp:
                        continue
                    if cls is wo and k in (f"call:confectioner.mix(Child(options),{optp})", f"call:confectioner.mix({optp},Child(options))"):
                        continue
                    if k == "dict{}":
                        from .interp import Frame as _Fr
                        if _Fr.atoms(p.conds[:e.ncond]).get(optp) is False or _Fr.atoms(p.conds[:e.ncond]).get(f"cmp:Is({optp},Const(None))") is True:
                            continue        # `if not options: options = {}` — the empty dictionary stands for the absent one
                    if bad is None:
                        bad = (e.line, f"{e.op} of {e.target.key()[:50] if e.target is not None else '?'} receives {k[:90]} (line {e.line})")
            res.add(f"{cls.qualname}.{op}:hands its options on unchanged", bad is None, owner.module.relpath, bad[0] if bad else fn.lineno,
                    "every operation issued receives the options parameter itself" + (" or its mix with the pre-set dictionary" if cls is wo else "")
                    if bad is None else bad[1], nec)
    res.count("operations", n)
    if n < 60:
        raise AnalysisError(f"R-OF: only {n} operations with an options argument seen")
    return res


# ------------------------------------------------------------------ R-VO
def rule_VO(run: Run) -> RuleResult:
    """The converse of R-VA / R-XA: an inspection method consults a child only where evaluate() may."""
    res = RuleResult("R-VO")
    nec = ("a child that validate() or explain() consults in a situation in which evaluate() never does makes them stricter than "
           "evaluation: validate(o) fails, or explain(o) lists an option as still to be supplied, although evaluate(o) succeeds without it "
           "(C10, C11) — typically a flag or switch honoured by some of the sibling operations only")
    for cls in run.node_classes():
        epaths_all = run.paths(cls, "evaluate")
        epaths = normal(epaths_all)
        if not epaths:
            continue
        res.count("classes")
        for op in ("validate", "explain"):
            f, ln = _meth_loc(run, cls, op)
            seen: Dict[str, Tuple[bool, str]] = {}
            for p in normal(run.paths(cls, op)):
                sp = _cond_sig(p)
                for c in op_targets(p, op):
                    if c == "<self>":
                        continue
                    ok, why = True, ""
                    for q in epaths:
                        if not _compatible(p, q):
                            continue
                        if c in op_targets(q, "evaluate") or c in op_targets(q, "transform") or c in op_targets(q, "validate"):
                            continue
                        # a returning evaluate path that does not consult c: is there a situation (its own comparable
                        # conditions, added to those of p) in which no evaluate path consults c?
                        # (facts about one element of a collection say nothing about the object as a whole)
                        sq = {t: pol for t, pol in _cond_sig(q).items() if pol is not None and t not in sp and "elem(" not in t and "[*]" not in t
                              and _about_object(t)}
                        # an empty collection has no elements: "the collection is falsy" is no situation in which an element is consulted
                        if "[*]" in c:
                            base_ = c.split("[*]")[0]
                            sq = {t: pol for t, pol in sq.items() if not (t == f"Child({base_})" and pol is False)
                                  and not (t in (f"call:len(Child({base_}))", f"cmp:Eq(call:len(Child({base_})),Const(0))"))}
                        if not sq:
                            continue

                        both = dict(sp)
                        both.update(sq)

                        def compat_both(x, both=both):
                            sx = _cond_sig(x)
                            return all(not (t in sx and sx[t] is not None and pol is not None and sx[t] != pol) for t, pol in both.items())
                        consulted = any(compat_both(x) and (c in op_targets(x, "evaluate", include_failed=True) or c in op_targets(x, "transform", include_failed=True)
                                                            or c in op_targets(x, "validate", include_failed=True)) for x in epaths_all)
                        if not consulted:
                            ok = False
                            why = "when " + " and ".join(f"{t[:70]} is {pol}" for t, pol in sorted(sq.items())) + f": {cls.name}.{op} consults '{c}', no evaluate path does"
                            break
                    prev = seen.get(c, (True, ""))
                    seen[c] = (prev[0] and ok, prev[1] or why)
            for c, (ok, why) in sorted(seen.items()):
                res.add(f"{cls.qualname}:{op}:{c} consulted only where evaluate may", ok, f, ln,
                        why or f"every situation in which {cls.name}.{op} consults '{c}' has an evaluate path that consults it too", nec)
    return res


# ------------------------------------------------------------------ R-XA
def rule_XA(run: Run) -> RuleResult:
    res = RuleResult("R-XA")
    nec = "a key reported by keys()/needed by validate() and absent from explain() breaks explain >= keys"
    for cls in run.node_classes():
        f, ln = _meth_loc(run, cls, "explain")
        xpaths = normal(run.paths(cls, "explain"))
        kpaths = normal(run.paths(cls, "keys"))
        vpaths = normal(run.paths(cls, "validate"))
        res.count("classes")
        res.count("paths", len(xpaths))
        explained: Set[str] = set()
        for p in xpaths:
            explained.update(op_targets(p, "explain"))
        selfop = any(e.kind == "selfop" for p in xpaths for e in p.events)
        want: List[Tuple[str, str]] = []
        for p in kpaths:
            for c in op_targets(p, "keys"):
                if (c, "keyed") not in want:
                    want.append((c, "keyed"))
        for p in vpaths:
            for c in op_targets(p, "validate"):
                if (c, "validated") not in want and (c, "keyed") not in want:
                    want.append((c, "validated"))
        for c, why in want:
            if c == "<self>":
                continue
            ok = c in explained or selfop
            res.add(f"{cls.qualname}:explain:{c} {why}-not-explained", ok, f, ln,
                    f"{cls.name}: child '{c}' is {why} " + ("and explained" if ok else "but never explained"), nec)
        # for every keys path there is a compatible explain path explaining at
        # least the children that path keys (path-by-path, not only in the union)
        for k in kpaths:
            if any(e.failed for e in k.events):
                continue
            kd = set(op_targets(k, "keys")) - {"<self>"}
            if not kd:
                continue
            ok = selfop or any(kd <= set(op_targets(x, "explain")) and _compatible(k, x) for x in xpaths)
            res.add(f"{cls.qualname}:explain:covers keys path{{{','.join(sorted(kd))}}}", ok, f, ln,
                    f"{cls.name}.keys path keying {sorted(kd)} " + ("has" if ok else "has no") + " compatible explain path explaining them all", nec)
        # a part that keys() keys only under a test of that part (``self.domain is MISSING``): a returning explain() path that
        # leaves the part out has decided the same test — a fast path that returns before the part's test is reached reports
        # fewer keys than the keys() path it is compatible with (round 11: `return {self.key}` for scalar values in Option.explain)
        for c, why in want:
            if c == "<self>" or why != "keyed" or selfop or "[*]" in c:      # single parts only: members of a collection are chosen by value
                continue
            kc = [k for k in kpaths if not any(e.failed for e in k.events) and c in op_targets(k, "keys")]
            # (an identity test of the part itself — ``is MISSING`` / ``is None`` — not a test of a value computed from it or of its class)
            guards = {t for k in kc for t in _cond_sig(k) if t.startswith(f"cmp:Is(Child({c}),")}
            if not kc or not guards or len(kc) == len(kpaths):
                continue
            # … and only a part that keys() keys whenever that test allows (every other returning keys() path decided the test):
            # a part left out for another reason (a default no case reached) is chosen by value, not by its own presence
            if not all(c in op_targets(k, "keys") or (guards & set(_cond_sig(k))) for k in kpaths if not any(e.failed for e in k.events)):
                continue
            early = [x for x in xpaths if c not in op_targets(x, "explain", include_failed=True) and not any(e.failed for e in x.events)
                     and not (guards & set(_cond_sig(x))) and any(_compatible(k, x) for k in kc)]
            res.add(f"{cls.qualname}:explain:a path leaving out '{c}' has tested it like keys", not early, f, ln,
                    f"every returning explain path that leaves out '{c}' decided {sorted(guards)[0][:60]}" if not early else
                    f"a returning explain path (conditions {[c2[0][:40] for c2 in early[0].conds][:4]}) returns without '{c}' and without the test "
                    f"{sorted(guards)[0][:60]} under which keys() keys it", nec)
        common = None
        for k in kpaths:
            ks = set(op_targets(k, "keys")) - {"<self>"}
            common = ks if common is None else (common & ks)
        if common:
            for p in xpaths:
                ex = set(op_targets(p, "explain"))
                missing = sorted(common - ex)
                if missing and not selfop:
                    res.add(f"{cls.qualname}:explain:path explains the always-keyed children", False, f, ln,
                            f"a returning explain path (fallback={any(e.failed for e in p.events)}) explains {sorted(ex)} but every keys() path keys {sorted(common)}", nec)
                    break
            else:
                res.add(f"{cls.qualname}:explain:path explains the always-keyed children", True, f, ln,
                        f"every returning explain path explains {sorted(common)}", nec)
        # the part whose value selects the branch (evaluated on every keys() and validate() path) is consulted by every returning
        # explain() path as well — possibly in vain (its failure is what the fallback branches of explain are for): an explain() that
        # decides from the options dictionary alone (``if not options``) that the selector cannot be determined reports the keys of
        # another branch than the one validate() goes on to check (C11)
        def _selectors(paths):
            sel = None
            for p in paths:
                s_ = {e.target.path for e in p.events if e.kind == "op" and e.op == "evaluate" and isinstance(e.target, Child) and "[*]" not in e.target.path and not e.via}
                sel = s_ if sel is None else (sel & s_)
            return sel or set()
        allk = [p for p in run.paths(cls, "keys") if p.status in ("ret", "raise")]
        allv = [p for p in run.paths(cls, "validate") if p.status in ("ret", "raise")]
        sel = _selectors(allk) & _selectors(allv) if allk and allv else set()
        for c_ in sorted(sel):
            skipping = [p for p in xpaths if not any(e.kind == "op" and e.op == "evaluate" and isinstance(e.target, Child) and e.target.path == c_ for e in p.events)
                        and not any(e.kind == "selfop" for e in p.events)]
            res.add(f"{cls.qualname}:explain:consults the selecting part '{c_}' like keys and validate", not skipping, f, ln,
                    f"every returning explain path evaluates '{c_}' first" if not skipping else
                    f"a returning explain path never evaluates '{c_}' (conditions {[c2[0][:40] for c2 in skipping[0].conds][:4]}): it reports a branch chosen without the selector", nec)
        if not want:
            res.add(f"{cls.qualname}:explain:no-children", True, f, ln, "no children", nec, trivial=True)
    return res


# ------------------------------------------------------------------ R-OA
def _opts_forms(paths, skip_failed_paths=False) -> Dict[str, Set[str]]:
    out: Dict[str, Set[str]] = {}
    for p in paths:
        if skip_failed_paths and any(e.failed for e in p.events):
            continue
        for e in p.events:
            if e.kind != "op" or e.failed or not isinstance(e.target, Child):
                continue
            # an operation handed no options at all (child.explain()) runs on the empty dictionary
            out.setdefault(e.target.path, set()).add(e.opts.key() if e.opts is not None else "<no options>")
    return out


def rule_OA(run: Run) -> RuleResult:
    res = RuleResult("R-OA")
    nec = ("an inspection method that passes a different options dictionary than evaluate() "
           "(e.g. raw instead of mixed with the pre-set options) reports keys of the wrong branch")
    for cls in run.node_classes():
        ref = _opts_forms(normal(run.paths(cls, "evaluate")))
        res.count("classes")
        for op in ("validate", "keys", "explain"):
            f, ln = _meth_loc(run, cls, op)
            forms = _opts_forms(normal(run.paths(cls, op)), skip_failed_paths=True)
            for c, fs in sorted(forms.items()):
                if c not in ref or c == "<self>":
                    continue
                ok = fs <= ref[c]
                extra = sorted(fs - ref[c])
                res.add(f"{cls.qualname}:{op}:{c} options-form", ok, f, ln,
                        f"{cls.name}.{op} passes {sorted(fs)} to '{c}', evaluate passes {sorted(ref[c])}" + (f"; differing: {extra}" if extra else ""), nec)
        # helper-argument agreement: a selector/helper shared by the four
        # operations is called with the same arguments in each of them
        import ast as _ast
        from . import astu as _astu
        calls = {}
        issuers = set()
        for op in OPS:
            owner, fn = cls.find_method(op)
            if owner is not cls and owner.name in ("Evaluatable", "Cacheable", "Validatable", "Explainable"):
                continue
            amap = _astu.single_assign_map(fn)
            pname = _astu.param_names(fn)[0] if _astu.param_names(fn) else "options"
            for c in _astu.calls_in(fn):
                if isinstance(c.func, _ast.Attribute) and _astu.is_self_attr(c.func) and cls.find_method(c.func.attr) and c.func.attr not in OPS:
                    args = []
                    hfn = cls.find_method(c.func.attr)[1]
                    n_named = len(hfn.args.posonlyargs + hfn.args.args) - 1     # without self
                    for i_a, a in enumerate(list(c.args) + [k.value for k in c.keywords]):
                        a2 = _astu.expand_locals(a, amap, keep=frozenset([pname]))
                        t = _astu.norm_opts(a2)
                        for opn in ("evaluate", "validate", "keys", "explain", "transform"):
                            t = t.replace(f"'{opn}'", "'<op>'")
                        # the operation handed over as a selector function (``_do_keys`` = lambda x, o: x.keys(o)) instead of by name
                        if isinstance(a2, _ast.Name):
                            r_sel = run.repo.resolve_name(owner.module, a2.id)
                            if r_sel and r_sel[0] == "func":
                                sfn = r_sel[1].node
                                sps = [x.arg for x in sfn.args.posonlyargs + sfn.args.args]
                                body_ = [st for st in sfn.body if not (isinstance(st, _ast.Expr) and isinstance(st.value, _ast.Constant))]
                                if len(sps) == 2 and len(body_) == 1 and isinstance(body_[0], _ast.Return) and isinstance(body_[0].value, _ast.Call):
                                    cv = body_[0].value
                                    if isinstance(cv.func, _ast.Attribute) and isinstance(cv.func.value, _ast.Name) and cv.func.value.id == sps[0] and cv.func.attr == op \
                                            and len(cv.args) == 1 and isinstance(cv.args[0], _ast.Name) and cv.args[0].id == sps[1] and not cv.keywords:
                                        t = "'<op>'"
                        # a class handed over (which request to issue, which error to raise) says what is asked, not of what
                        if isinstance(a2, _ast.Name):
                            r_k = run.repo.resolve_name(owner.module, a2.id)
                            if r_k and r_k[0] == "class":
                                t = "'<kind>'"
                                issuers.add(c.func.attr)
                        # what the helper is to answer when there is nothing to ask (None, an empty set, the identity function): a
                        # positional constant that differs between the operations as their results do
                        if i_a < len(c.args) and (t in ("None", "set()", "frozenset()", "{}", "[]", "()", "0", "''", "False", "True")
                                                  or (isinstance(a2, _ast.Name) and (run.repo.resolve_name(owner.module, a2.id) or ("",))[0] == "func")):
                            t = "<neutral>"
                        t = t.replace(pname, "<options>")
                        if i_a >= len(c.args):
                            t = f"{c.keywords[i_a - len(c.args)].arg}={t}"
                        # arguments forwarded to the operation through *args (the value an effect receives, …) belong to
                        # the operation; what must agree there is only which options are handed on
                        if i_a < len(c.args) and i_a >= n_named and hfn.args.vararg is not None and t not in ("'<op>'", "<options>", "<options> or {}"):
                            continue
                        args.append(t)
                    calls.setdefault(c.func.attr, {}).setdefault(op, set()).add((tuple(args), ()))
        for helper, per_op in calls.items():
            if "evaluate" not in per_op or len(per_op) < 2:
                continue
            ref_forms = per_op["evaluate"]
            for op, forms in per_op.items():
                if op == "evaluate":
                    continue
                f, ln = _meth_loc(run, cls, op)
                ok = forms == ref_forms
                if not ok and helper in issuers:
                    # a helper that issues the request it is told to: evaluate may hand it more (the value to store); an inspection
                    # method hands it the same positional arguments and no keyword evaluate does not
                    def _split(form):
                        pos_ = tuple(a_ for a_ in form[0] if "=" not in a_.split("(")[0])
                        return pos_, {a_ for a_ in form[0] if "=" in a_.split("(")[0]}
                    ok = all(any(_split(fm)[0] == _split(rf)[0] and _split(fm)[1] <= _split(rf)[1] for rf in ref_forms) for fm in forms)
                res.add(f"{cls.qualname}:{op}:self.{helper}(...) called as in evaluate", ok, f, ln,
                        f"{cls.name}.{op} calls self.{helper}{sorted(forms)}, evaluate calls self.{helper}{sorted(ref_forms)}",
                        "a selector called with other arguments in an inspection method inspects something else than what is evaluated "
                        "(e.g. only the first Map combination): keys/explain/validate then disagree with evaluate")
    return res


# ------------------------------------------------------------------ R-EV
# (class, method, child) triples where an inspection method may evaluate:
# selectors only.  Confirmed by reading; one line of reason each.
ALLOWED_EVAL = {
    ("Switch", "dispatch"): "the dispatch value selects the branch",
    ("Overloaded", "dispatch"): "Overloaded delegates to a Switch built from its own fields",
    ("Bind", "evaluatable"): "the bound function needs the source value to produce the node to inspect",
    ("CaseWhen", "dispatch"): "the dispatch value is tested by the conditions",
    ("CaseWhen", "cases[*].0"): "conditions are evaluated to predicates that choose the case",
    ("Map", "iterables[*]"): "the option combinations are the values of the iterables",
}
ALLOWED_SELF_EVAL = {
    ("Option", "validate"): "a present key is validated by resolving it (type/domain checks)",
    ("_AllOptions", "validate"): "validation = resolution of the whole dictionary",
}


def rule_EV(run: Run) -> RuleResult:
    res = RuleResult("R-EV")
    nec = ("an evaluation inside validate/keys/explain runs dataset bodies during inspection "
           "(e.g. Apply.validate calling self.evaluatable(options))")
    # effects are inspected too (validate / explain of an Effect must not evaluate its callback)
    from .interp import Ctx, analyse_method
    for ecls in run.repo.subclasses_of("Effect"):
        for op in ("validate", "keys", "explain"):
            r_ = ecls.find_method(op)
            if r_ is None or r_[0].name in ("Effect", "Validatable", "Explainable", "Cacheable", "Transformation"):
                continue
            bad = []
            for p in analyse_method(Ctx(run.repo), ecls, op):
                for e in p.events:
                    if e.kind == "op" and e.op in ("evaluate", "transform") and isinstance(e.target, Child):
                        bad.append(e.target.path)
            res.add(f"{ecls.qualname}:{op}:does not evaluate its parts", not bad, r_[0].module.relpath, r_[1].lineno,
                    "inspection only" if not bad else f"{ecls.name}.{op} evaluates {sorted(set(bad))}: the callback / effect body runs during inspection", nec)
    for cls in run.node_classes():
        res.count("classes")
        for op in ("validate", "keys", "explain"):
            f, ln = _meth_loc(run, cls, op)
            seen: Set[str] = set()
            for p in run.paths(cls, op):
                for e in p.events:
                    if e.kind == "selfop" and e.op == "evaluate":
                        key = f"<self>"
                        if key in seen:
                            continue
                        seen.add(key)
                        role_name = "_AllOptions" if cls is run.repo.role_class("all_options") else cls.name
                        ok = (role_name, op) in ALLOWED_SELF_EVAL
                        res.add(f"{cls.qualname}:{op}:self-evaluate", ok, e.file, e.line,
                                f"{cls.name}.{op} evaluates the object itself" + (f" (allowed: {ALLOWED_SELF_EVAL[(role_name, op)]})" if ok else ""), nec)
                    if e.kind != "op" or e.op not in ("evaluate", "transform"):
                        continue
                    if any(v.startswith("<self>.evaluate") for v in e.via):
                        continue  # part of the self-evaluation judged above
                    tg = e.target.path if isinstance(e.target, Child) else ("new:" + e.target.cls.name if isinstance(e.target, New) else None)
                    if tg is None or tg in seen:
                        continue
                    seen.add(tg)
                    if tg.startswith("new:"):
                        # evaluation of a freshly built node without children of ours
                        from .facts import leaf_children
                        if not leaf_children(e.target):
                            continue
                    ok = (cls.name, tg) in ALLOWED_EVAL
                    res.add(f"{cls.qualname}:{op}:{tg} evaluated-during-inspection", ok, e.file, e.line,
                            f"{cls.name}.{op} evaluates '{tg}'" + (f" (selector: {ALLOWED_EVAL[(cls.name, tg)]})" if ok else " which is not a selector"), nec)
    return res


# ------------------------------------------------------------------ R-EG
def rule_EG(run: Run) -> RuleResult:
    res = RuleResult("R-EG")
    nec = ("without the guard explain({}) fails with a KeyNotFoundError instead of an "
           "InsufficientInformationError / a static fallback")
    for cls in run.node_classes():
        f, ln = _meth_loc(run, cls, "explain")
        res.count("classes")
        seen = set()
        for p in run.paths(cls, "explain"):
            for e in p.events:
                if e.kind != "op" or e.op not in ("evaluate", "validate") or not isinstance(e.target, Child):
                    continue
                k = (e.op, e.target.path, e.line)
                if k in seen:
                    continue
                seen.add(k)
                guarded = False
                for g in e.guards:
                    for t in g.split("|"):
                        if t.endswith("!"):
                            continue  # this handler may re-raise the caught error
                        t = t.strip("() ")
                        for one in t.split(","):
                            one = one.strip().split(".")[-1]
                            if one in ("EvaluationError", "Exception", "BaseException"):
                                guarded = True
                res.add(f"{cls.qualname}:explain:{e.op} {e.target.path} guarded", guarded, e.file, e.line,
                        f"{cls.name}.explain applies {e.op} to '{e.target.path}' " + ("inside" if guarded else "outside") + " a try that catches EvaluationError", nec)
        # handlers of explain must raise InsufficientInformationError(...) from e or return
        for p in run.paths(cls, "explain"):
            if p.status == "raise" and p.exc and any(c[0].startswith("except ") for c in p.conds):
                typ, cause, line = p.exc
                okr = typ.split(".")[-1] == "InsufficientInformationError" and cause.startswith("from ")
                # only handlers that live in an explain method are judged
                k = ("raise", typ, line)
                if k in seen:
                    continue
                seen.add(k)
                # locate the frame: the raise event's file/line
                rev = [e for e in p.events if e.kind == "raise"]
                if rev and _in_explain_method(run, rev[-1]):
                    res.add(f"{cls.qualname}:explain:handler raises {typ.split('.')[-1]}", okr, rev[-1].file, line,
                            f"handler reached from {cls.name}.explain raises {typ} ({cause})", nec)
    return res


# ------------------------------------------------------------------ R-WI
def rule_WI(run: Run) -> RuleResult:
    """Whole-iteration agreement: a child that evaluation consults once per element of a collection
    (every member, every combination of a Map) is keyed / validated / explained once per element too."""
    res = RuleResult("R-WI")
    nec = ("a child evaluated for every element of a collection but keyed, validated or explained for one "
           "representative element only misses the keys / failures of the other elements: the dependencies of an "
           "element may differ (overload dispatch, nested options), so the cache key and validate() are wrong for those")
    n = 0
    for cls in run.node_classes():
        tab: Dict[str, Dict[str, Set[bool]]] = {}
        for op in OPS:
            for p in normal(run.paths(cls, op)):
                for e in p.events:
                    if e.kind == "op" and e.op == op and isinstance(e.target, Child) and not e.failed:
                        tab.setdefault(e.target.path, {}).setdefault(op, set()).add(bool(e.whole))
        for c, d in sorted(tab.items()):
            if d.get("evaluate") != {True}:
                continue
            n += 1
            for op in ("keys", "validate", "explain"):
                if op not in d:
                    continue        # coverage itself is R-KC / R-VA / R-XA
                f, ln = _meth_loc(run, cls, op)
                ok = d[op] == {True} if op != "explain" else True in d[op]
                res.add(f"{cls.qualname}:{op}:{c} consulted for every element", ok, f, ln,
                        f"evaluate() consults '{c}' once per element; {op}() " + ("does too" if ok else "consults it for a single representative element"), nec)
    res.count("iterated_children", n)
    if n < 6:
        raise AnalysisError(f"R-WI found only {n} children that evaluation consults per element (10 confirmed by hand)")
    return res


def _in_explain_method(run: Run, ev) -> bool:
    import ast
    for m in run.repo.modules.values():
        if m.relpath != ev.file:
            continue
        for n in ast.walk(m.tree):
            if isinstance(n, ast.FunctionDef) and n.name == "explain" and n.lineno <= ev.line <= (n.end_lineno or n.lineno):
                return True
    return False


# ------------------------------------------------------------------ R-SL
BRANCH_CHILDREN = {
    "Switch": ["lookup[*]", "default"],
    "Overloaded": ["lookup[*]", "default"],
    "CaseWhen": ["cases[*].1", "default"],
    "Coalesce": ["members[*]"],
}


def rule_SL(run: Run) -> RuleResult:
    res = RuleResult("R-SL")
    nec = ("applying an op to every branch (comprehension/loop over lookup.values(), all "
           "members, all case results) runs or validates unselected branches")
    for cname, branches in BRANCH_CHILDREN.items():
        cls = run.repo.cls(cname)
        for op in OPS:
            f, ln = _meth_loc(run, cls, op)
            ok = True
            detail = ""
            n = 0
            for p in normal(run.paths(cls, op, unroll=2)):
                last_fail = max([i for i, e in enumerate(p.events) if e.failed], default=-1)
                tail = p.events[last_fail + 1:]
                hits = [e for e in tail if e.kind == "op" and e.op == op
                        and isinstance(e.target, Child) and e.target.path in branches]
                n += 1
                if any(e.in_comp for e in hits):
                    ok = False
                    detail = f"{op} applied to all of '{[e.target.path for e in hits if e.in_comp][0]}' inside a comprehension"
                elif len(hits) > 1 and not (cname == "Coalesce" and op == "validate" and len(hits) == 2):
                    ok = False
                    detail = f"path applies {op} to {len(hits)} branches {[e.target.path for e in hits]}"
                # branch children must not receive *other* ops beyond the
                # member.validate gate of Coalesce
                others = [e for e in p.events if e.kind == "op" and not e.failed and e.op != op
                          and isinstance(e.target, Child) and e.target.path in branches
                          and not (cname == "Coalesce" and e.op == "validate")]
                if others:
                    ok = False
                    detail = f"{op} path applies {others[0].op} to branch '{others[0].target.path}'"
            if cname == "CaseWhen":
                for p in normal(run.paths(cls, op, unroll=2)):
                    # on the path that ends at the default every condition has been consulted (and failed): there the
                    # whole list is what the choice depended on
                    chose_case = any(e.kind == "op" and isinstance(e.target, Child) and e.target.path == "cases[*].1" and not e.failed for e in p.events)
                    if not chose_case:
                        continue
                    for e in p.events:
                        if e.kind == "op" and isinstance(e.target, Child) and e.target.path == "cases[*].0" and e.whole:
                            ok = False
                            detail = f"{op}: {e.op} applied to every condition up front (line {e.line}); conditions are consulted one by one until the first match"
            res.count("paths", n)
            res.add(f"{cls.qualname}:{op}:only-selected-branch", ok, f, ln,
                    detail or f"{cname}.{op}: every returning path touches at most the selected branch ({n} paths)", nec)
    return res
